"""C09: a sequence is exactly the effect of its successful calls."""
from __future__ import annotations

from .. import ops
from . import Oracle


def _diff(a, b) -> str:
    """Human-readable first difference between two Snap objects."""
    if a.timeline_key() != b.timeline_key():
        for name in list(a.channels) + [n for n in b.channels if n not in a.channels]:
            if name not in a.channels or name not in b.channels:
                return f"channel {name} {'appeared' if name in b.channels else 'disappeared'}"
            sa, sb = a.channels[name].slots, b.channels[name].slots
            if [s.key() for s in sa] != [s.key() for s in sb]:
                k = 0
                while k < min(len(sa), len(sb)) and sa[k].key() == sb[k].key():
                    k += 1
                xa = sa[k].key()[:4] if k < len(sa) else None
                xb = sb[k].key()[:4] if k < len(sb) else None
                return f"channel {name} slot {k}: {xa} -> {xb}"
            if a.channels[name].eom_blocks != b.channels[name].eom_blocks:
                return f"channel {name} EOM blocks {a.channels[name].eom_blocks} -> {b.channels[name].eom_blocks}"
    if a.phase_key() != b.phase_key():
        return "phase references / shift times changed"
    if a.flags != b.flags:
        ks = [k for k in a.flags if a.flags[k] != b.flags.get(k)]
        return "flags changed: " + ", ".join(f"{k}: {a.flags[k]} -> {b.flags.get(k)}" for k in ks)
    if a.calls != b.calls:
        return f"call log changed ({len(a.calls)} -> {len(b.calls)} calls)"
    for name in a.channels:
        if a.channels[name].key() != b.channels[name].key():
            return f"channel {name} state changed (mode/weights/flags)"
    return "state changed"


class C09(Oracle):
    def end(self, ctx, snap):
        return _check_old_copies(ctx)

    def step(self, ctx, i, op, pre, out, post, tag):
        v = []
        k = op["op"]
        kind = (tag or "").split("/")[0]
        if k in ops.OBSERVER:
            ctx.stats[f"matrix/observe/{k}/{'same' if pre.key() == post.key() else 'CHANGED'}"] += 1
            if pre.key() != post.key():
                v.append((f"C09/read-only-changed", f"{k} ({out.brief()}) changed the sequence: {_diff(pre, post)}"))
            return v
        if k in ops.FORK:
            if pre.key() != post.key():
                v.append(("C09/read-only-changed", f"rebuilding a copy from the call log changed the sequence: {_diff(pre, post)}"))
            r = out.value if out.ok else None
            cell = (tag or "fork").replace("bad/", "")
            if not isinstance(r, dict) or r.get("status") != "done":
                ctx.stats[f"matrix/fork/{cell}/{(r or {}).get('status', 'raised')}"] += 1
                return v
            fout = r["out"]
            if fout.ok:
                ctx.stats[f"matrix/fork/{cell}/accepted"] += 1
                return v
            same = r["pre"].key() == r["post"].key()
            ctx.stats[f"matrix/refused/{cell}/{'same' if same else 'CHANGED'}"] += 1
            ctx.probe("fork_refused_after_prelude")
            if not same:
                v.append(("C09/refused-call-changed", f"after {[o['op'] for o in op['prelude']]} on a copy, {op['bad']['op']} raised {fout.exc_type} ({(fout.exc_msg or '')[:80]}) but changed the sequence: {_diff(r['pre'], r['post'])} [{cell}]"))
            return v
        if k in ops.CACHE:
            return v
        if k in ops.RESTART:
            if not out.ok:
                if pre.key() != post.key():
                    v.append(("C09/failed-restart-changed", f"{k} raised {out.exc_type} and changed the sequence: {_diff(pre, post)}"))
                return v
            same = pre.timeline_key() == post.timeline_key() and pre.phase_key() == post.phase_key()
            ctx.stats[f"matrix/restart/{k}/{'same' if same else 'CHANGED'}"] += 1
            if not same:
                v.append((f"C09/restart-differs", f"{k}: the copy differs from the original: {_diff(pre, post)}"))
            else:
                fl = {x: pre.flags[x] for x in ("measured", "measure_basis", "in_xy", "in_ising", "slm_targets", "mag_field", "parametrized")}
                fl2 = {x: post.flags[x] for x in fl}
                if fl != fl2:
                    v.append((f"C09/restart-differs", f"{k}: flags differ: {fl} -> {fl2}"))
                if ctx.notes.get("refused_since_restart"):
                    ctx.probe("restart_after_failed_call")
                ctx.notes["refused_since_restart"] = 0
            olds = getattr(ctx.sut, "old_seqs", None)
            if olds and olds[-1] is not ctx.notes.get("last_old") and not pre.parametrized:
                ctx.notes["last_old"] = olds[-1]  # (a switch to the same device returns the object itself)
                keep = ctx.notes.setdefault("old_copies", [])
                keep.append((k, i, olds[-1], pre.key()))
                del keep[:-3]
            return v
        if not out.ok:
            ctx.notes["last_refused_step"] = i
            ctx.notes["refused_since_restart"] = ctx.notes.get("refused_since_restart", 0) + 1
            same = pre.key() == post.key()
            cell = (tag or "untagged/valid-intent").replace("bad/", "")
            ctx.stats[f"matrix/refused/{cell}/{'same' if same else 'CHANGED'}"] += 1
            if not same:
                v.append((f"C09/refused-call-changed", f"{k} raised {out.exc_type} ({(out.exc_msg or '')[:80]}) but changed the sequence: {_diff(pre, post)} [{cell}]"))
        elif kind == "bad":
            ctx.stats[f"matrix/accepted-bad/{tag}"] += 1
        return v


def _check_old_copies(ctx):
    """The objects a restart left behind are unchanged by everything that was
    done to their copies afterwards (copies share no state with the original)."""
    from .. import observe

    v = []
    for k, i, old, key in ctx.notes.get("old_copies", ()):
        try:
            now = observe.snapshot(old)
        except Exception as e:  # noqa: BLE001
            v.append(("C09/copy-not-independent", f"the sequence left behind by {k} at step {i} can no longer be inspected: {type(e).__name__}: {str(e)[:100]}"))
            continue
        ctx.probe("old_copy_checked")
        if now.key() != key:
            what = [n for n, a, b in zip(("channels", "phase references", "flags", "call log", "parametrized"), now.key(), key) if a != b] if isinstance(key, tuple) else []
            v.append(("C09/copy-not-independent", f"the sequence left behind by {k} at step {i} changed while its copy was being used: {what}"))
    return v


class Twin(Oracle):
    """The sequence is a function of its record of successful calls, checked
    continuously: a twin receives ONLY the successful timeline-changing calls
    and restarts (no read-only call, no refused call, no cache flush). After
    each of them the twin must have accepted the call and hold the same state.
    Hidden state left behind by a query or by a refused call shows up here as
    soon as it influences scheduling, not only at the next restart."""

    def begin(self, ctx, snap):
        self.twin = ops.SUT(ctx.world)
        self.dead = False

    def step(self, ctx, i, op, pre, out, post, tag):
        k = op["op"]
        if self.dead or not out.ok or not (k in ops.MUTATING or k in ops.RESTART):
            return ()
        tout = ops.issue(self.twin, op)
        if not tout.ok:
            self.dead = True
            return [("C09/twin-refused", f"{k} was accepted by the sequence under test but refused ({tout.exc_type}: {(tout.exc_msg or '')[:80]}) by a twin that received the same successful calls and none of the read-only / refused ones")]
        from .. import observe

        ts = observe.snapshot(self.twin.seq)
        ctx.stats["twin_compared"] += 1
        same = ts.timeline_key() == post.timeline_key() and ts.phase_key() == post.phase_key()
        fl = ("measured", "measure_basis", "in_xy", "in_ising", "slm_targets", "mag_field", "parametrized", "empty")
        if same and any(ts.flags[x] != post.flags[x] for x in fl):
            self.dead = True
            return [("C09/twin-diverged", f"after {k} the flags differ from the twin's: { {x: (post.flags[x], ts.flags[x]) for x in fl if ts.flags[x] != post.flags[x]} }")]
        if not same:
            self.dead = True
            return [("C09/twin-diverged", f"after {k} the sequence differs from a twin that received the same successful calls and none of the read-only / refused ones: {_diff(ts, post)}")]
        if ctx.notes.get("refused_since_restart") or ctx.stats.get("fault/observe/fired", 0):
            ctx.probe("twin_compared_after_faults")
        return ()


class Relabel(Oracle):
    """Run another property's oracle as part of this check, under new ids."""

    def __init__(self, inner, prefix: str, only: tuple = ()):
        self.inner, self.prefix, self.only = inner, prefix, only

    def begin(self, ctx, snap):
        self.inner.begin(ctx, snap)

    def _map(self, vs):
        out = []
        for oid, msg in vs or ():
            if self.only and oid not in self.only:
                continue
            out.append((self.prefix + oid.split("/", 1)[1], msg))
        return out

    def step(self, *a):
        return self._map(self.inner.step(*a))

    def end(self, ctx, snap):
        return self._map(self.inner.end(ctx, snap))


def observer_catalogue(snap, ctx, rng) -> list:
    """One of every read-only call constructible in the current state."""
    out = [
        {"op": "obs_str"},
        {"op": "obs_sample"},
        {"op": "obs_sample", "modulation": True},
        {"op": "obs_sample", "extended": 30000, "nested": True, "all_local": True},
        {"op": "obs_sample", "nested": True},
        {"op": "obs_duration"},
        {"op": "obs_duration", "fall": True},
        {"op": "obs_props"},
        {"op": "obs_abstract", "skip": True},
        {"op": "obs_legacy"},
    ]
    for n, cs in snap.channels.items():
        out.append({"op": "obs_duration", "ch": n, "fall": True})
        if cs.slots and not cs.is_dmm:
            ch = cs.obj
            d = max(ch.min_duration, 16)
            amax = ch.max_amp if ch.max_amp is not None else 5.0
            for proto, ph in (("min-delay", 2.5), ("wait-for-all", 0.0)):
                out.append({
                    "op": "obs_estimate",
                    "pulse": {"amp": {"w": "const", "d": d, "v": max(0.5 * amax, ch.min_avg_amp)}, "det": {"w": "const", "d": d, "v": 0.0}, "phase": ph},
                    "ch": n,
                    "protocol": proto,
                })
    for b in sorted(snap.phase):
        out.append({"op": "obs_phase_ref", "qubit": ctx.qids[0], "basis": b})
    return out


def nontrivial(ctx, st) -> bool:
    s = ctx.stats
    reached = 0
    reached += s.get("probe/state_pending_fall", 0) > 0
    reached += s.get("probe/state_open_eom", 0) > 0
    reached += s.get("probe/state_slm_pending", 0) > 0
    reached += s.get("probe/state_near_max_seq", 0) > 0
    reached += s.get("probe/state_measured", 0) > 0
    return reached >= 2
