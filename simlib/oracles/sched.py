"""RefSched: the declarative scheduling rule, stateless per step.

Predicts, from the *observed* pre-state, where a pulse added with a given
protocol must start. Written from the documentation / property text.
"""
from __future__ import annotations

import math
from itertools import product

from . import fall_time, slot_in_eom

PULSE_OPS = ("add", "add_eom_pulse", "add_dmm_detuning")


def ceil_clock(x: int, clock: int) -> int:
    return x if x % clock == 0 else x + clock - x % clock


def adjust(ch, x: int) -> int:
    return ceil_clock(max(int(x), ch.min_duration), ch.clock_period)


def earliest(t0: int, lower: int, ch) -> int:
    """Smallest admissible start >= lower: t0 itself or t0 + a valid delay."""
    if lower <= t0:
        return t0
    return t0 + adjust(ch, lower - t0)


def new_slots(pre_cs, post_cs):
    return post_cs.slots[len(pre_cs.slots):]


def op_channel(op: dict) -> str:
    return op["ch"]


def op_protocol(op: dict) -> str:
    if "protocol" in op:
        return op["protocol"]
    return "no-delay" if op["op"] == "add_dmm_detuning" else "min-delay"


def barrier(pre, name: str) -> int:
    cs = pre.channels[name]
    basis = cs.obj.basis
    tg = cs.slots[-1].targets
    refs = pre.phase.get(basis, {})
    return max([refs[q][0][-1] for q in tg if q in refs] or [0])


def is_user_pulse(ctx, name: str, s) -> bool:
    """A pulse the user asked for (incl. zero-amplitude ones), as opposed to an
    automatically inserted detuned delay (EOM idling / buffers)."""
    return s.kind == "pulse" or (s.kind == "ddelay" and (name, s.ti, s.tf) in ctx.user_pulses)


def conflict_bounds(ctx, pre, name: str, protocol: str, count_ddelay: bool, mode: str):
    """Per other channel: end (incl. fall) of its most recent relevant pulse.

    mode: 'slot' = fall time by the mode the slot was played in,
          'current' = by the channel's current mode.
    """
    if protocol == "no-delay":
        return {}
    mine = set(pre.channels[name].slots[-1].targets)
    out = {}
    for other, cs in pre.channels.items():
        if other == name:
            continue
        best = None
        for s in reversed(cs.slots):
            user = is_user_pulse(ctx, other, s)
            if user or (s.kind == "ddelay" and count_ddelay):
                if protocol == "wait-for-all" or (mine & set(s.targets)):
                    eom = slot_in_eom(s, cs) if mode == "slot" else cs.in_eom
                    b = s.tf + fall_time(s, cs, eom)
                    if best is None or b > best[0]:
                        best = (b, s)
                    # automatic detuned delays are transparent: the pulse
                    # behind them may take longer to ramp down
                    if user and s.kind == "pulse":
                        break
                    if not count_ddelay:
                        break
        if best is not None:
            out[other] = best
    return out


def last_real_pulse(cs):
    for s in reversed(cs.slots):
        if s.kind == "pulse":
            return s
    return None


def phase_jump_bound(pre_cs, new_phase: float, protocol: str):
    """(bound, ambiguous) for the phase-jump rule of the channel itself."""
    if protocol == "no-delay":
        return None, False
    last = last_real_pulse(pre_cs)
    if last is None:
        return None, False
    lp = float(last.pulse.phase)
    d = abs(lp - new_phase)
    d = min(d, abs(2 * math.pi - d))
    if lp == new_phase:
        return None, False
    ch = pre_cs.obj
    in_eom = pre_cs.in_eom
    J = max(ch.phase_jump_time, 2 * ch.rise_time if in_eom else 0)
    b = last.tf + J + fall_time(last, pre_cs, slot_in_eom(last, pre_cs))
    return b, d < 1e-9


def predict_starts(ctx, pre, name: str, protocol: str, new_phase: float, cpd: bool = False) -> tuple[set, dict]:
    """The set of admissible start times under the declared readings."""
    cs = pre.channels[name]
    ch = cs.obj
    t0 = cs.end
    bar = barrier(pre, name)
    pj, amb = phase_jump_bound(cs, new_phase, protocol)
    starts = set()
    info = {"t0": t0, "barrier": bar, "phase_jump": pj}
    pj_opts = [pj]
    if amb or cpd:
        # float-equality band / drift-corrected phase depends on the start
        pj_opts = [pj, None] if pj is not None else [None]
        if cpd and pj is None:
            last = last_real_pulse(cs)
            if last is not None and protocol != "no-delay":
                in_eom = cs.in_eom
                J = max(ch.phase_jump_time, 2 * ch.rise_time if in_eom else 0)
                pj_opts = [None, last.tf + J + fall_time(last, cs, slot_in_eom(last, cs))]
    for count_dd, mode in product((False, True), ("slot", "current")):
        cb = conflict_bounds(ctx, pre, name, protocol, count_dd, mode)
        conf = max([b for b, _ in cb.values()] or [0])
        info[f"conflict[{'dd' if count_dd else 'real'},{mode}]"] = conf
        for p in pj_opts:
            # the implementation rounds max(conflict, barrier) - t0 and the
            # phase-jump buffer together: delay = adjust(max(...))
            lower = max(t0, bar, conf, p or 0)
            starts.add(earliest(t0, lower, ch))
    return starts, info


def safety_bounds(ctx, pre, name: str, protocol: str) -> dict:
    """Strict reading: user pulses only, fall time by the slot's own mode."""
    return conflict_bounds(ctx, pre, name, protocol, False, "slot")
