"""C06: sampling renders the schedule exactly (RefRender)."""
from __future__ import annotations

import numpy as np

from .. import ops
from . import Oracle

ATOL = 1e-12


def _arr(x):
    return np.asarray(x.as_array(detach=True) if hasattr(x, "as_array") else x, dtype=float)


# ------------------------------------------------------------- RefRender
def render_channel(cs):
    """Expected (amp, det) of a channel from its slots."""
    n = cs.end
    amp, det = np.zeros(n), np.zeros(n)
    for s in cs.slots:
        if s.kind in ("pulse", "ddelay"):
            amp[s.ti : s.tf] += _arr(s.pulse.amplitude.samples)
            det[s.ti : s.tf] += _arr(s.pulse.detuning.samples)
    return amp, det


def slm_mask_end(snap):
    """End of the SLM mask in XY mode: end of the first pulse of the global
    channel that starts pulsing the earliest (None if no such pulse yet)."""
    if not snap.flags["slm_targets"] or not snap.flags["in_xy"]:
        return None
    best = None
    for cs in snap.channels.values():
        if cs.is_dmm or cs.obj.addressing != "Global":
            continue
        for s in cs.slots:
            if s.kind == "pulse":
                if best is None or s.ti < best[0]:
                    best = (s.ti, s.tf)
                break
    return None if best is None else best[1]


def atom_weight(cs, coords_by_q, q) -> float:
    """Detuning-map weight of the trap at the atom's position (0 if none)."""
    if not cs.dmm_weights:
        return 0.0
    c = tuple(round(float(x), 6) for x in coords_by_q[q])
    for tc, w in cs.dmm_weights[1]:
        if tuple(tc) == c:
            return float(w)
    return 0.0


def render_atoms(snap, qids, coords_by_q):
    """basis -> q -> (amp, det, cover) with cover = list of (ti, tf, phase) of
    the real pulses acting on the atom."""
    T = max([c.end for c in snap.channels.values()] or [0])
    mask_end = slm_mask_end(snap)
    masked = set(snap.flags["slm_targets"]) if mask_end is not None else set()
    out: dict = {}
    for cs in snap.channels.values():
        basis = cs.obj.basis
        b = out.setdefault(basis, {q: [np.zeros(T), np.zeros(T), []] for q in qids})
        for s in cs.slots:
            if s.kind not in ("pulse", "ddelay"):
                continue
            a, d = _arr(s.pulse.amplitude.samples), _arr(s.pulse.detuning.samples)
            for q in s.targets:
                ti = s.ti
                if basis == "XY" and q in masked:
                    if s.ti < mask_end < s.tf and s.kind == "pulse":
                        out.setdefault("_probes", set()).add("xy_pulse_straddles_mask_end")
                    ti = max(ti, mask_end)
                if ti >= s.tf:
                    continue
                w = atom_weight(cs, coords_by_q, q) if cs.is_dmm else 1.0
                b[q][0][ti : s.tf] += a[ti - s.ti :]
                b[q][1][ti : s.tf] += d[ti - s.ti :] * w
                if s.kind == "pulse" and not cs.is_dmm and float(a.max()) > 0:
                    b[q][2].append((ti, s.tf, float(s.pulse.phase)))
    # instants the statement does not decide: a channel left in EOM mode keeps
    # idling at its off-detuning after its last instruction
    undecided = {b: {q: np.zeros(T, dtype=bool) for q in qids} for b in out if b != "_probes"}
    for cs in snap.channels.values():
        if cs.in_eom and cs.eom_blocks[-1][4] != 0 and cs.slots and cs.end < T:
            for q in cs.slots[-1].targets:
                undecided[cs.obj.basis][q][cs.end :] = True
    for b in undecided:
        for q in qids:
            out[b][q].append(undecided[b][q])
    return out, T


def compose_nested(nd: dict, basis: str, q, T: int):
    """Per-atom arrays from the nested dict (Global + Local contributions)."""
    amp, det, ph = np.zeros(T), np.zeros(T), np.zeros(T)
    g = nd.get("Global", {}).get(basis)
    if g:
        amp += g["amp"]
        det += g["det"]
        ph += g["phase"]
    l = nd.get("Local", {}).get(basis, {}).get(q)
    if l:
        amp += l["amp"]
        det += l["det"]
        ph += l["phase"]
    return amp, det, ph


class C06(Oracle):
    def __init__(self, every: int = 4):
        self.every = every

    def begin(self, ctx, snap):
        reg = ctx.world["register"]
        self.coords = {q: c for q, c in zip(reg["ids"], reg["coords"])}

    def step(self, ctx, i, op, pre, out, post, tag):
        k = op["op"]
        if k == "switch_register" and out.ok:
            reg = op["register"]
            self.coords = {q: c for q, c in zip(reg["ids"], reg["coords"])}
            ctx.probe("atoms_moved_between_traps")
        if post.parametrized or not post.channels:
            return ()
        if k == "obs_sample" or (k in ops.MUTATING and out.ok and i % self.every == 0) or (k in ops.RESTART and out.ok):
            ext = op.get("extended") if k == "obs_sample" else None
            return self.check(ctx, post, ext, sample_raised=(k == "obs_sample" and not out.ok and not op.get("modulation")), err=out)
        return ()

    def end(self, ctx, snap):
        if snap.parametrized or not snap.channels:
            return ()
        return self.check(ctx, snap, None)

    def check(self, ctx, snap, extended, sample_raised=False, err=None):
        from pulser.sampler import sample

        v = []
        seq = ctx.sut.seq
        try:
            ss = sample(seq)
        except Exception as e:  # noqa: BLE001
            return [("C06/sample-raised", f"sample(seq) raised {type(e).__name__}: {str(e)[:120]}")]
        ctx.stats["observations"] += 1
        # ------------------------------------------------ per channel
        for name, cs in snap.channels.items():
            chs = ss.channel_samples[name]
            amp, det, ph = _arr(chs.amp), _arr(chs.det), _arr(chs.phase)
            if not (len(amp) == len(det) == len(ph) == cs.end):
                v.append(("C06/length", f"{name}: sampled arrays have {len(amp)} samples, channel lasts {cs.end}"))
                continue
            eamp, edet = render_channel(cs)
            for what, got, exp in (("amp", amp, eamp), ("det", det, edet)):
                if not np.allclose(got, exp, rtol=1e-12, atol=ATOL):
                    t = int(np.flatnonzero(~np.isclose(got, exp, rtol=1e-12, atol=ATOL))[0])
                    v.append(("C06/channel-" + what, f"{name}: sampled {what}[{t}] = {got[t]!r}, schedule gives {exp[t]!r}"))
            for s in cs.slots:
                if s.kind == "pulse" and s.tf > s.ti:
                    seg = ph[s.ti : s.tf]
                    if not np.all(seg == float(s.pulse.phase)):
                        v.append(("C06/channel-phase", f"{name}: phase over pulse {s.ti}->{s.tf} is {seg[0]!r}..{seg[-1]!r}, pulse phase {float(s.pulse.phase)!r}"))
            # idle instants inside EOM blocks sit at the block's off-detuning
            for (bti, btf, _r, _don, doff) in cs.eom_blocks:
                end = btf if btf is not None else cs.end
                if end > bti:
                    idle = amp[bti:end] == 0
                    real = np.zeros(end - bti, dtype=bool)
                    for s in cs.slots:
                        if s.kind == "pulse" and s.ti >= bti and s.tf <= end:
                            real[s.ti - bti : s.tf - bti] = True
                    idx = np.flatnonzero(~real)
                    if len(idx):
                        ctx.probe("eom_idle_instants", int(len(idx)))
                        bad = idx[~np.isclose(det[bti:end][idx], doff, rtol=1e-12, atol=ATOL)]
                        if len(bad):
                            t = bti + int(bad[0])
                            v.append(("C06/eom-idle-detuning", f"{name}: idle in EOM mode at t={t}: detuning {det[t]!r}, off-detuning {doff!r}"))
        # ------------------------------------------------ extension only pads
        if extended:
            try:
                se = sample(seq, extended_duration=extended)
            except Exception as e:  # noqa: BLE001
                se = None
                if extended >= max(c.end for c in snap.channels.values()):
                    v.append(("C06/extend-raised", f"sample(extended_duration={extended}) raised {type(e).__name__}: {str(e)[:100]}"))
            if se is not None:
                ctx.probe("extended_observation")
                for name, cs in snap.channels.items():
                    base, ex = ss.channel_samples[name], se.channel_samples[name]
                    n = cs.end
                    a, d, p = _arr(ex.amp), _arr(ex.det), _arr(ex.phase)
                    if len(a) != extended:
                        v.append(("C06/extend-length", f"{name}: extended arrays have {len(a)} samples, asked {extended}"))
                        continue
                    ok = np.array_equal(a[:n], _arr(base.amp)) and np.array_equal(d[:n], _arr(base.det)) and np.array_equal(p[:n], _arr(base.phase))
                    if not ok:
                        v.append(("C06/extend-changed", f"{name}: extending the duration changed already rendered samples"))
                    pad_det = cs.eom_blocks[-1][4] if cs.in_eom else 0.0
                    pad_ph = float(_arr(base.phase)[-1]) if n else 0.0
                    if np.any(a[n:] != 0) or not np.allclose(d[n:], pad_det, rtol=0, atol=ATOL) or np.any(p[n:] != pad_ph):
                        v.append(("C06/extend-padding", f"{name}: padding is not (0, {pad_det!r}, {pad_ph!r}): amp {a[n:n+1]}, det {d[n:n+1]}, phase {p[n:n+1]}"))
                    elif cs.in_eom and pad_det != 0:
                        ctx.probe("extended_in_eom")
        # ------------------------------------------------ per atom, per basis
        exp, T = render_atoms(snap, ctx.qids, self.coords)
        for pr in exp.pop("_probes", ()):
            ctx.probe(pr)
        for all_local in (False, True):
            try:
                nd = ss.to_nested_dict(all_local=all_local)
            except Exception as e:  # noqa: BLE001
                v.append(("C06/nested-raised", f"to_nested_dict(all_local={all_local}) raised {type(e).__name__}: {str(e)[:120]}"))
                continue
            for basis, atoms in exp.items():
                for q, (eamp, edet, cover, und) in atoms.items():
                    amp, det, ph = compose_nested(nd, basis, q, T)
                    tagv = "all-local" if all_local else "default"
                    if und.any():
                        ctx.probe("idle_open_eom_padding_skipped")
                    for what, got, ex in (("amp", amp, eamp), ("det", np.where(und, 0.0, det), np.where(und, 0.0, edet))):
                        if not np.allclose(got, ex, rtol=1e-12, atol=ATOL):
                            t = int(np.flatnonzero(~np.isclose(got, ex, rtol=1e-12, atol=ATOL))[0])
                            v.append((f"C06/atom-{what}", f"[{tagv} view] atom {q!r} basis {basis}: {what}[{t}] = {got[t]!r}, pulses targeting it give {ex[t]!r}"))
                    # phase where exactly one real pulse acts on the atom
                    single = np.zeros(T, dtype=int)
                    for ti, tf, _p in cover:
                        single[ti:tf] += 1
                    for ti, tf, p in cover:
                        m = single[ti:tf] == 1
                        if m.any() and not np.allclose(ph[ti:tf][m], p, rtol=0, atol=1e-12):
                            t = ti + int(np.flatnonzero(m & ~np.isclose(ph[ti:tf], p, rtol=0, atol=1e-12))[0])
                            oid = "C06/atom-phase" if all_local else "C06/atom-phase-default-view"
                            v.append((oid, f"[{tagv} view] atom {q!r} basis {basis}: phase[{t}] = {ph[t]!r} during a pulse of phase {p!r}"))
                            break
            if any(len(c[2]) for atoms in exp.values() for c in atoms.values()):
                ctx.probe("atom_view_checked")
        if slm_mask_end(snap) is not None:
            ctx.probe("xy_slm_mask_rendered")
        if any(cs.is_dmm and cs.pulse_slots() for cs in snap.channels.values()):
            ctx.probe("dmm_weighted")
        # report each oracle id once per observation
        seen, out = set(), []
        for oid, msg in v:
            if oid not in seen:
                seen.add(oid)
                out.append((oid, msg))
        return out


def nontrivial(ctx, st) -> bool:
    snap = st.cur
    rich = any(
        cs.eom_blocks or cs.is_dmm or sum(1 for s in cs.slots if s.kind == "target") > 1 for cs in snap.channels.values()
    )
    return rich and ctx.stats.get("observations", 0) >= 2
