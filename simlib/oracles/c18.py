"""C18: switching device or register preserves the program."""
from __future__ import annotations

import copy
import random

from .. import gen as G
from . import Oracle
from .c01 import check_pulse_limits
from .c02 import check_tiling
from .c09 import _diff

TIMING = ("clock_period", "min_duration", "max_duration", "mod_bandwidth", "custom_phase_jump_time", "min_retarget_interval", "fixed_retarget_t")
LIMITS = ("max_amp", "max_abs_detuning", "min_avg_amp", "max_targets")


def perturb_device(rng: random.Random, spec: dict) -> tuple[dict, list]:
    """A new device spec derived from the current one, and what was touched."""
    new = copy.deepcopy(spec)
    touched = []
    if spec["kind"] == "builtin":
        name = G.pick(rng, [n for n in ("AnalogDevice", "DigitalAnalogDevice", "MockDevice") if n != spec["name"]])
        return {"kind": "builtin", "name": name}, ["other-builtin"]
    new["name"] = spec.get("name", "Gen") + "_b"
    n_changes = G.pick(rng, [0, 1, 1, 1, 2, 3])
    for _ in range(n_changes):
        what = G.wpick(rng, {"timing": 6, "limit": 2, "eom": 2, "order": 1.5, "reusable": 0.7, "level": 0.7, "dmm": 1, "maxseq": 1})
        if what == "timing" and new["channels"]:
            c = G.pick(rng, new["channels"])
            p = G.pick(rng, [t for t in TIMING if t in c])
            pool = {
                "clock_period": [1, 2, 4, 8],
                "min_duration": [1, 4, 16, 20, 52],
                "max_duration": [None, 400, 1000, 2**26],
                "mod_bandwidth": [None, 2.0, 4.0, 8.0, 20.0],
                "custom_phase_jump_time": [None, 0, 30, 200],
                "min_retarget_interval": [0, 100, 220, 250],
                "fixed_retarget_t": [0, 10, 60, 300],
            }[p]
            v = G.pick(rng, [x for x in pool if x != c.get(p)] or pool)
            if p == "mod_bandwidth" and v is None and c.get("eom"):
                continue
            if p == "max_duration" and v is not None and v < c["min_duration"]:
                continue
            if p == "min_duration" and c.get("max_duration") is not None and v > c["max_duration"]:
                continue
            c[p] = v
            if p == "mod_bandwidth" and c.get("eom") and v and c["eom"]["mod_bandwidth"] < v and rng.random() < 0.8:
                c["eom"]["mod_bandwidth"] = v * 2.5
            touched.append(f"{c['id']}.{p}")
        elif what == "limit" and new["channels"]:
            c = G.pick(rng, new["channels"])
            p = G.pick(rng, [t for t in LIMITS if t in c])
            if p == "max_targets":
                c[p] = G.pick(rng, [None, 1, 2, 3])
            elif p == "min_avg_amp":
                c[p] = G.pick(rng, [0, 0.4, 1.0])
            else:
                cur = c[p]
                c[p] = G.pick(rng, [None, 6.0, 12.0, 60.0, (cur or 10.0) * 0.5])
            if new["kind"] == "physical" and c[p] is None:
                c[p] = 60.0 if p != "max_targets" else 2
            touched.append(f"{c['id']}.{p}")
        elif what == "eom":
            cs = [c for c in new["channels"] if c.get("eom")]
            if cs:
                c = G.pick(rng, cs)
                p = G.pick(rng, ["mod_bandwidth", "custom_buffer_time", "max_limiting_amp", "intermediate_detuning", "multiple_beam_control", "limiting_beam", "blue_shift_coeff"])
                e = c["eom"]
                if p == "mod_bandwidth":
                    e[p] = G.pick(rng, [20.0, 40.0, 60.0])
                elif p == "custom_buffer_time":
                    e[p] = G.pick(rng, [None, 12, 40, 150, 300])
                elif p == "multiple_beam_control":
                    e[p] = not e.get(p, True)
                elif p == "limiting_beam":
                    e[p] = "RED" if e[p] == "BLUE" else "BLUE"
                elif p == "blue_shift_coeff":
                    e[p] = G.pick(rng, [1.0, 0.8, 1.3])
                else:
                    e[p] = e[p] * G.pick(rng, [0.5, 1.5])
                touched.append(f"{c['id']}.eom.{p}")
        elif what == "order" and len(new["channels"]) > 1:
            rng.shuffle(new["channels"])
            if rng.random() < 0.5:
                for k, c in enumerate(new["channels"]):
                    c["id"] = f"x{k}_{c['id']}"
            touched.append("channel-order/ids")
        elif what == "reusable" and new["kind"] == "virtual":
            new["reusable_channels"] = not new.get("reusable_channels", False)
            touched.append("reusable")
        elif what == "level":
            new["rydberg_level"] = G.pick(rng, [x for x in (60, 70, 80) if x != new.get("rydberg_level")])
            touched.append("rydberg_level")
        elif what == "dmm" and new.get("dmm"):
            d = G.pick(rng, new["dmm"])
            p = G.pick(rng, ["clock_period", "min_duration", "bottom_detuning", "mod_bandwidth"])
            d[p] = {"clock_period": G.pick(rng, [1, 4]), "min_duration": G.pick(rng, [1, 16]), "bottom_detuning": G.pick(rng, [-31.4, -125.66]), "mod_bandwidth": G.pick(rng, [None, 8.0, 20.0])}[p]
            if d.get("total_bottom_detuning") is not None and d.get("bottom_detuning") is not None and d["bottom_detuning"] < d["total_bottom_detuning"]:
                d["total_bottom_detuning"] = d["bottom_detuning"] * 4
            touched.append(f"dmm.{p}")
        elif what == "maxseq":
            new["max_sequence_duration"] = G.pick(rng, [None, 100000, 4000, 1500, 600])
            touched.append("max_sequence_duration")
    return new, touched


def perturb_register(rng: random.Random, reg: dict) -> dict:
    new = copy.deepcopy(reg)
    how = G.pick(rng, ["same", "shift", "scale"])
    if how == "shift":
        new["coords"] = [[c[0] + 0.7, c[1] - 0.3] + c[2:] for c in new["coords"]]
    elif how == "scale":
        new["coords"] = [[x * 1.1 for x in c] for c in new["coords"]]
    elif how == "reorder":
        pairs = list(zip(new["ids"], new["coords"]))
        rng.shuffle(pairs)
        new["ids"], new["coords"] = [p[0] for p in pairs], [p[1] for p in pairs]
    return new


def kinds_per_channel(snap) -> list:
    """Instruction kinds per channel, in declaration order (DMM names follow
    the device's DMM ids and may change)."""
    return [tuple(s.kind for s in cs.slots if s.kind not in ("delay", "ddelay")) for cs in snap.channels.values()]


def _compress(times, phases):
    """Drop shift entries that change the reference by less than 1e-9 (a drift
    correction with an off-detuning of 1e-15 records a shift of 1e-16)."""
    ts, ps = [times[0]], [phases[0]]
    for t, p in zip(times[1:], phases[1:]):
        d = abs(p - ps[-1])
        if min(d, abs(6.283185307179586 - d)) > 1e-9:
            ts.append(t)
            ps.append(p)
    return tuple(ts), tuple(ps)


def phases_close(a, b) -> bool:
    if set(a.phase) != set(b.phase):
        return False
    for basis in a.phase:
        for q, (t1, p1, u1) in a.phase[basis].items():
            t2, p2, u2 = b.phase[basis][q]
            t1, p1 = _compress(t1, p1)
            t2, p2 = _compress(t2, p2)
            if t1 != t2 or u1 != u2 or len(p1) != len(p2):
                return False
            if any(min(abs(x - y), 6.283185307179586 - abs(x - y)) > 1e-9 for x, y in zip(p1, p2)):
                return False
    return True


def tl(snap) -> "Timeline":
    return Timeline(snap)


class Timeline:
    """Timeline per channel in declaration order, ignoring device channel ids;
    samples compared to 1e-9 (the off-detuning of an EOM block is recomputed
    from the new EOM configuration and may move by an ulp); the off-detuning of
    a block matters through the idle slots that carry it."""

    def __init__(self, snap):
        self.chs = list(snap.channels.values())

    def __eq__(self, other):
        import numpy as np

        from .c06 import _arr

        if len(self.chs) != len(other.chs):
            return False
        for a, b in zip(self.chs, other.chs):
            if len(a.slots) != len(b.slots) or len(a.eom_blocks) != len(b.eom_blocks):
                return False
            for x, y in zip(a.slots, b.slots):
                if (x.ti, x.tf, x.targets) != (y.ti, y.tf, y.targets):
                    return False
                if x.kind != y.kind:
                    # a plain delay and a detuned delay whose detuning is numerical
                    # noise (an off-detuning of -1e-15 recomputed from the other EOM
                    # configuration) are the same instruction
                    kinds = {x.kind, y.kind}
                    dd = x if x.kind == "ddelay" else y
                    if kinds != {"delay", "ddelay"} or np.abs(_arr(dd.pulse.detuning.samples)).max() > 1e-9:
                        return False
                    continue
                if x.pulse is not None:
                    if not (
                        np.allclose(_arr(x.pulse.amplitude.samples), _arr(y.pulse.amplitude.samples), rtol=1e-9, atol=1e-12)
                        and np.allclose(_arr(x.pulse.detuning.samples), _arr(y.pulse.detuning.samples), rtol=1e-9, atol=1e-12)
                        # (modulo 2 pi: a reference recomputed with the other EOM configuration
                        # may move by an ulp across the wrap, 0.0 vs 6.283185307179574)
                        and min(abs(float(x.pulse.phase) - float(y.pulse.phase)), abs(6.283185307179586 - abs(float(x.pulse.phase) - float(y.pulse.phase)))) < 1e-9
                    ):
                        return False
            for p, q in zip(a.eom_blocks, b.eom_blocks):
                if p[:2] != q[:2] or not np.allclose(p[2:4], q[2:4], rtol=1e-9, atol=1e-12):
                    return False
        return True

    def __ne__(self, other):
        return not self.__eq__(other)


class C18(Oracle):
    def step(self, ctx, i, op, pre, out, post, tag):
        v = []
        k = op["op"]
        if k == "switch_device":
            touched = op.get("touched", [])
            timing = any(t.split(".")[-1] in TIMING or ".eom." in t for t in touched)
            ctx.stats[f"switch/{'strict' if op['strict'] else 'loose'}/{'ok' if out.ok else out.exc_type}"] += 1
            if not out.ok:
                if pre.key() != post.key():
                    v.append(("C18/failed-switch-changed", f"switch_device raised {out.exc_type} and changed the original sequence"))
                return v
            if pre.parametrized:
                return v
            same = tl(pre) == tl(post)
            if op["strict"]:
                if not same or not phases_close(pre, post):
                    v.append(("C18/strict-changed", f"switch_device(strict=True) to a device differing in {touched} returned a different sequence: {_diff(pre, post)}"))
                elif timing:
                    ctx.probe("strict_switch_accepted_with_timing_change")
            else:
                for name, cs in post.channels.items():
                    for oid, msg in check_tiling(cs, label="C18/nonstrict"):
                        v.append((oid, msg))
                    for s in cs.slots:
                        if s.kind in ("pulse", "ddelay"):
                            for oid, msg in check_pulse_limits(cs, s, label="C18/nonstrict"):
                                v.append((oid, msg))
                dev = ctx.sut.device
                if dev.max_sequence_duration is not None:
                    tot = max([c.end for c in post.channels.values()] or [0])
                    if tot > dev.max_sequence_duration:
                        v.append(("C18/nonstrict/max-sequence-duration", f"switched sequence lasts {tot} > {dev.max_sequence_duration}"))
                if kinds_per_channel(pre) != kinds_per_channel(post):
                    v.append(("C18/nonstrict-instructions", f"switch_device(strict=False) changed the instructions: {kinds_per_channel(pre)} -> {kinds_per_channel(post)}"))
                if not same:
                    ctx.probe("nonstrict_switch_changed_timeline")
            if timing and any(len([s for s in cs.slots if s.kind == "delay"]) for cs in pre.channels.values()):
                ctx.probe("timing_relevant_switch")
        elif k == "switch_register":
            ctx.stats[f"switch_register/{'ok' if out.ok else out.exc_type}"] += 1
            if not out.ok:
                if pre.key() != post.key():
                    v.append(("C18/failed-switch-changed", f"switch_register raised {out.exc_type} and changed the original sequence"))
                return v
            if pre.parametrized:
                return v
            if tl(pre) != tl(post) or not phases_close(pre, post):
                v.append(("C18/register-changed", f"switch_register to a register with the same qubit IDs returned a different timeline: {_diff(pre, post)}"))
            else:
                ctx.probe("register_switched")
        return v


def nontrivial(ctx, st) -> bool:
    return ctx.stats.get("probe/timing_relevant_switch", 0) >= 1
