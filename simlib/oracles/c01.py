"""C01: every scheduled pulse respects channel and device limits (+ converse)."""
from __future__ import annotations

import math

import numpy as np

from .. import ops
from . import Oracle
from . import sched as S
from .c02 import expected_fall_ends


def _arr(x):
    return np.asarray(x.as_array(detach=True) if hasattr(x, "as_array") else x, dtype=float)


def wf_params(wf) -> dict:
    try:
        d = dict(wf._to_abstract_repr())
    except Exception:  # noqa: BLE001 - e.g. an InterpolatedWaveform with interpolator kwargs
        d = {
            "kind": type(wf).__name__,
            "values": np.asarray(getattr(wf, "_values", ())).tolist(),
            "times": np.asarray(getattr(wf, "_times", ())).tolist(),
            "kwargs": repr(sorted(getattr(wf, "_kwargs", {}).items())),
        }
    d.pop("duration", None)
    return {k: (np.asarray(v).tolist() if hasattr(v, "__len__") and not isinstance(v, (str, dict)) else v) for k, v in d.items()}


def check_pulse_limits(cs, slot, label="C01") -> list:
    """Intrinsic limits of one scheduled pulse slot on its channel."""
    v = []
    ch = cs.obj
    p = slot.pulse
    amp, det = _arr(p.amplitude.samples), _arr(p.detuning.samples)
    where = f"{cs.name} {slot.ti}->{slot.tf}"
    if not (np.all(np.isfinite(amp)) and np.all(np.isfinite(det))):
        v.append((f"{label}/non-finite", f"{where}: scheduled pulse has non-finite samples"))
        return v
    if ch.max_amp is not None and np.any(amp > ch.max_amp):
        v.append((f"{label}/amp", f"{where}: amplitude {amp.max()!r} above max_amp {ch.max_amp!r}"))
    m = float(np.mean(amp)) if len(amp) else 0.0
    if 0 < m < ch.min_avg_amp:
        v.append((f"{label}/min-avg-amp", f"{where}: average amplitude {m} below min_avg_amp {ch.min_avg_amp}"))
    if ch.max_abs_detuning is not None and np.any(np.round(np.abs(det), 6) > ch.max_abs_detuning):
        v.append((f"{label}/detuning", f"{where}: |detuning| {np.abs(det).max()!r} above max_abs_detuning {ch.max_abs_detuning!r}"))
    if cs.is_dmm:
        rd = np.round(det, 6)
        if np.any(rd > 0):
            v.append((f"{label}/dmm-positive", f"{where}: positive DMM detuning {rd.max()}"))
        ws = [w for _, w in cs.dmm_weights[1]] if cs.dmm_weights else []
        mn = float(rd.min()) if len(rd) else 0.0
        if ws:
            mn = float(det.min()) if len(det) else 0.0  # unrounded; 1.5e-6 covers the rounding rule
            if ch.bottom_detuning is not None and max(ws) * mn < ch.bottom_detuning - 1.5e-6:
                v.append((f"{label}/dmm-bottom", f"{where}: per-atom detuning {max(ws) * mn} below bottom_detuning {ch.bottom_detuning}"))
            if ch.total_bottom_detuning is not None and sum(ws) * mn < ch.total_bottom_detuning - 1.5e-6:
                v.append((f"{label}/dmm-total-bottom", f"{where}: total detuning {sum(ws) * mn} below total_bottom_detuning {ch.total_bottom_detuning}"))
    d = slot.tf - slot.ti
    if d % ch.clock_period:
        v.append((f"{label}/clock", f"{where}: duration {d} not a multiple of clock {ch.clock_period}"))
    if d < ch.min_duration:
        v.append((f"{label}/min-duration", f"{where}: duration {d} below min_duration {ch.min_duration}"))
    if ch.max_duration is not None and d > ch.max_duration:
        v.append((f"{label}/max-duration", f"{where}: duration {d} above max_duration {ch.max_duration}"))
    return v


def near_limit(cs, slot) -> bool:
    ch = cs.obj
    p = slot.pulse
    amp, det = _arr(p.amplitude.samples), _arr(p.detuning.samples)
    if ch.max_amp and len(amp) and abs(amp.max() - ch.max_amp) <= 4 * np.spacing(ch.max_amp):
        return True
    if ch.max_abs_detuning and len(det) and abs(np.abs(det).max() - ch.max_abs_detuning) < 1e-6:
        return True
    d = slot.tf - slot.ti
    if d - ch.min_duration <= 1 or (ch.max_duration is not None and ch.max_duration - d <= ch.clock_period):
        return True
    if cs.is_dmm and len(det):
        ws = [w for _, w in cs.dmm_weights[1]] if cs.dmm_weights else []
        if ws and ch.bottom_detuning is not None and abs(max(ws) * det.min() - ch.bottom_detuning) < 1e-5:
            return True
        if ws and ch.total_bottom_detuning is not None and abs(sum(ws) * det.min() - ch.total_bottom_detuning) < 1e-5:
            return True
    return False


class C01(Oracle):
    def step(self, ctx, i, op, pre, out, post, tag):
        v = []
        k = op["op"]
        if post.parametrized or pre.parametrized:
            return v
        dev = ctx.sut.device
        if out.ok and (k in ops.MUTATING or k in ops.RESTART):
            for name, cs in post.channels.items():
                n0 = len(pre.channels[name].slots) if (name in pre.channels and k not in ops.RESTART) else 0
                for s in cs.slots[n0:]:
                    if s.kind in ("pulse", "ddelay"):
                        v += check_pulse_limits(cs, s)
                        ctx.stats["pulses_checked"] += 1
                        if near_limit(cs, s):
                            ctx.probe("pulse_near_limit")
                    elif s.kind == "delay" or (s.kind == "target" and s.tf > s.ti > -1):
                        d = s.tf - s.ti
                        ch = cs.obj
                        if ch.max_duration is not None and d > ch.max_duration:
                            v.append(("C01/max-duration-auto", f"{name}: {s.kind} {s.ti}->{s.tf} longer than max_duration {ch.max_duration}"))
            if dev.max_sequence_duration is not None:
                tot = max([c.end for c in post.channels.values()] or [0])
                if tot > dev.max_sequence_duration:
                    v.append(("C01/max-sequence-duration", f"after {k}: sequence lasts {tot} > max_sequence_duration {dev.max_sequence_duration}"))
                elif dev.max_sequence_duration - tot < 60:
                    ctx.probe("near_max_sequence_duration")
        if k in ("add", "add_dmm_detuning") and not (tag or "").startswith("bad"):
            v += self.converse(ctx, op, pre, out, post)
        return v

    # ---------------------------------------------------------------- converse
    def converse(self, ctx, op, pre, out, post):
        v = []
        name = op["ch"]
        verdict, why = self.must_accept(ctx, op, pre)
        ctx.stats[f"converse/{verdict}"] += 1
        if not out.ok:
            if verdict == "MUST_ACCEPT":
                v.append(("C01/refused-valid", f"{op['op']} on {name} inside every limit was refused: {out.exc_type}: {out.exc_msg}"))
            return v
        # HOW an accepted pulse was scheduled (unchanged, or only lengthened to the
        # next clock multiple) is judged whatever the verdict on acceptance was
        if name not in pre.channels or name not in post.channels or pre.parametrized or post.parametrized:
            return v
        if op["op"] == "add" and (pre.channels[name].is_dmm or pre.channels[name].in_eom):
            return v
        if op["op"] == "add_dmm_detuning" and not pre.channels[name].is_dmm:
            return v
        try:
            ops.build_pulse(op["pulse"]) if op["op"] == "add" else ops.build_wf(op["wf"])
        except Exception:  # noqa: BLE001
            return v
        pcs, qcs = pre.channels[name], post.channels[name]
        new = S.new_slots(pcs, qcs)
        if not new or new[-1].kind not in ("pulse", "ddelay"):
            if verdict == "MUST_ACCEPT":
                v.append(("C01/not-scheduled", f"{op['op']} on {name} returned normally but no pulse was scheduled"))
            return v
        slot = new[-1]
        sub = ops.build_pulse(op["pulse"]) if op["op"] == "add" else None
        if sub is None:
            from pulser import Pulse

            sub = Pulse.ConstantAmplitude(0, ops.build_wf(op["wf"]), 0)
        ch = pcs.obj
        d = sub.duration
        sch = slot.pulse
        if d % ch.clock_period == 0:
            if sch.duration != d or not (
                np.array_equal(_arr(sch.amplitude.samples), _arr(sub.amplitude.samples))
                and np.array_equal(_arr(sch.detuning.samples), _arr(sub.detuning.samples))
            ):
                v.append(("C01/changed", f"{name}: pulse of clock-multiple duration {d} was altered when scheduled"))
        else:
            ctx.probe("pulse_lengthened")
            exp = S.ceil_clock(d, ch.clock_period)
            if sch.duration != exp:
                v.append(("C01/lengthened-wrong", f"{name}: pulse of {d} ns scheduled with {sch.duration} ns, expected {exp}"))
            for a, b, what in ((sch.amplitude, sub.amplitude, "amplitude"), (sch.detuning, sub.detuning, "detuning")):
                if type(a) is not type(b) or wf_params(a) != wf_params(b):
                    v.append(("C01/lengthened-params", f"{name}: {what} waveform changed beyond its duration: {wf_params(b)} -> {wf_params(a)}"))
            # "only lengthened": the same waveform DEFINITION with the new duration,
            # rebuilt here from the op (not with the library's change_duration)
            specs = (op["pulse"]["amp"], op["pulse"]["det"]) if op["op"] == "add" else (None, op["wf"])
            for spec, got, what in zip(specs, (sch.amplitude, sch.detuning), ("amplitude", "detuning")):
                if spec is None or "d" not in spec or spec["w"] in ("blackman", "kaiser"):
                    continue  # fixed-length or area-defined shapes: covered by the parameter comparison
                try:
                    ref = _arr(ops.build_wf(dict(spec, d=exp)).samples)
                except Exception:  # noqa: BLE001
                    continue
                g = _arr(got.samples)
                ctx.probe("lengthened_rebuilt")
                if g.shape != ref.shape or not np.allclose(g, ref, rtol=1e-9, atol=1e-9):
                    v.append(("C01/lengthened-samples", f"{name}: {what} of the lengthened pulse differs from the same {spec['w']} waveform defined over {exp} ns by {np.abs(g - ref).max() if g.shape == ref.shape else 'shape'}"))
        return v

    def must_accept(self, ctx, op, pre):
        name = op["ch"]
        dev = ctx.sut.device
        if name not in pre.channels:
            return "DONT_CARE", "undeclared"
        cs = pre.channels[name]
        ch = cs.obj
        if pre.flags["measured"] or pre.parametrized:
            return "DONT_CARE", "mode"
        if op["op"] == "add" and (cs.is_dmm or cs.in_eom or not cs.slots):
            return "DONT_CARE", "mode"
        if op["op"] == "add_dmm_detuning" and (not cs.is_dmm or cs.waiting_first_pulse):
            return "DONT_CARE", "mode"
        if S.op_protocol(op) not in ("min-delay", "no-delay", "wait-for-all"):
            return "DONT_CARE", "protocol"
        try:
            if op["op"] == "add":
                p = ops.build_pulse(op["pulse"])
            else:
                from pulser import Pulse

                p = Pulse.ConstantAmplitude(0, ops.build_wf(op["wf"]), 0)
        except Exception:  # noqa: BLE001
            return "DONT_CARE", "pulse not constructible"
        amp, det = _arr(p.amplitude.samples), _arr(p.detuning.samples)
        if not (np.all(np.isfinite(amp)) and np.all(np.isfinite(det))):
            return "DONT_CARE", "non-finite"
        margin = 1e-9
        if ch.max_amp is not None and np.any(amp > ch.max_amp):
            return "DONT_CARE", "amp"
        m = float(np.mean(amp))
        if 0 < m < ch.min_avg_amp * (1 + 1e-9):
            return "DONT_CARE", "avg"
        if ch.max_abs_detuning is not None and np.any(np.round(np.abs(det), 6) > ch.max_abs_detuning):
            return "DONT_CARE", "det"
        if cs.is_dmm:
            rd = np.round(det, 6)
            if np.any(rd > 0):
                return "DONT_CARE", "dmm+"
            ws = [w for _, w in cs.dmm_weights[1]] if cs.dmm_weights else [1.0]
            mn = float(rd.min())
            # within 1.5e-6 of a bottom limit the 1e-6 rounding rule decides;
            # only clearly-inside pulses are claimed
            if ch.bottom_detuning is not None and max(ws) * float(det.min()) < ch.bottom_detuning + 1.5e-6:
                return "DONT_CARE", "bottom (rounding band or below)"
            if ch.total_bottom_detuning is not None and sum(ws) * float(det.min()) < ch.total_bottom_detuning + 1.5e-6:
                return "DONT_CARE", "total (rounding band or below)"
        else:
            basis = ch.basis
            tg = cs.slots[-1].targets
            if len({pre.phase_ref(basis, q) for q in tg}) != 1:
                return "DONT_CARE", "mixed refs"
        d = p.duration
        if d < ch.min_duration or (ch.max_duration is not None and d > ch.max_duration):
            return "DONT_CARE", "duration"
        dd = S.ceil_clock(d, ch.clock_period)
        if ch.max_duration is not None and dd > ch.max_duration:
            return "DONT_CARE", "rounded duration above max"
        if dd != d:
            from pulser.waveforms import CompositeWaveform, CustomWaveform

            if isinstance(p.amplitude, (CompositeWaveform, CustomWaveform)) or isinstance(p.detuning, (CompositeWaveform, CustomWaveform)):
                return "DONT_CARE", "cannot be lengthened"
            # lengthening may push a shaped pulse over a limit: judged on the result only
            from pulser.waveforms import ConstantWaveform, RampWaveform

            if not all(isinstance(w, (ConstantWaveform, RampWaveform)) for w in (p.amplitude, p.detuning)):
                return "DONT_CARE", "lengthening changes samples"
        # timing: the inserted delay must itself be a legal instruction and the
        # sequence must stay within the device maximum
        import math as _m

        if cs.is_dmm:
            new_phase = 0.0
        else:
            ref = pre.phase_ref(ch.basis, cs.slots[-1].targets[0])
            new_phase = (float(p.phase) + ref) % (2 * _m.pi)
        starts, _ = S.predict_starts(ctx, pre, name, S.op_protocol(op), new_phase, cpd=True)
        worst = max(starts)
        if ch.max_duration is not None and worst - cs.end > ch.max_duration:
            return "DONT_CARE", "delay above max_duration"
        if dev.max_sequence_duration is not None and worst + dd > dev.max_sequence_duration:
            return "DONT_CARE", "sequence too long"
        # SLM auto-pulse on the DMM may be triggered and has its own limits
        if pre.flags["slm_dmm"] and pre.flags["in_ising"]:
            return "DONT_CARE", "slm side effect"
        return "MUST_ACCEPT", ""


def nontrivial(ctx, st) -> bool:
    return ctx.stats.get("pulses_checked", 0) >= 3 and ctx.stats.get("probe/pulse_near_limit", 0) >= 1
