"""C13: which building operations are accepted follows the documented typestate.

RefType is a stateful three-valued model written from the property text.
"""
from __future__ import annotations

import random

from .. import gen as G
from .. import ops
from . import Oracle
from .c02 import check_tiling

ACC, REF, DC = "MUST_ACCEPT", "MUST_REFUSE", "DONT_CARE"


class RefType:
    def __init__(self, device, qids):
        self.device = device
        self.qids = list(qids)
        self.reusable = bool(getattr(device, "reusable_channels", False))
        self.mode = None  # None | "ising" | "xy"
        self.chans: dict = {}  # name -> dict(id, obj, in_eom, has_target, is_dmm)
        self.used_ids: list = []
        self.measured = False
        self.parametrized = False
        self.slm = False
        self.slm_dmm_id = None
        self.vars: set = set()

    # ------------------------------------------------------------ helpers
    def _fits(self, snap, extra=3000) -> bool:
        """Conservative: would a short instruction still fit the device limit?"""
        mx = self.device.max_sequence_duration
        if mx is None:
            return True
        end = max([c.end for c in snap.channels.values()] or [0])
        return end + extra <= mx

    def _valid_targets(self, ch, qubits, snap, index=False) -> bool:
        qs = qubits if isinstance(qubits, (list, tuple)) else [qubits]
        if not qs:
            return False
        if index:
            if not all(isinstance(i, int) and 0 <= i < len(self.qids) for i in qs):
                return False
            qs = [self.qids[i] for i in qs]
        if not all(q in self.qids for q in qs):
            return False
        if ch.max_targets is not None and len(set(qs)) > ch.max_targets:
            return False
        if self.parametrized:
            return True
        refs = snap.phase.get(ch.basis)
        if refs is None:
            return True
        return len({refs[q][1][-1] for q in set(qs)}) == 1

    def _delay_ok(self, name, snap) -> bool:
        """No automatic delay longer than the channel's max_duration can be needed."""
        cs = snap.channels.get(name)
        if cs is None:
            return True
        mx = cs.obj.max_duration
        if mx is None:
            return True
        latest = max(c.end for c in snap.channels.values())
        return latest + 1500 - cs.end <= mx

    @staticmethod
    def _eom_off_ok(ch, op) -> bool:
        """The off-detuning implied by the setpoint lies within the channel limits."""
        try:
            off = float(ch.eom_config.calculate_detuning_off(op["amp_on"], op["det_on"], float(op.get("opt_off", 0.0))))
        except Exception:  # noqa: BLE001
            return False
        return ch.max_abs_detuning is None or abs(off) <= ch.max_abs_detuning - 1e-5

    def _single_ref(self, name, snap) -> bool:
        cs = snap.channels.get(name)
        if cs is None or not cs.slots:
            return False
        refs = snap.phase.get(cs.obj.basis, {})
        return len({refs[q][1][-1] for q in cs.slots[-1].targets if q in refs}) <= 1

    # ------------------------------------------------------------ predict
    def declare_verdict(self, name, cid, initial_target, snap):
        if self.measured:
            return REF, "measured"
        if name in self.chans or name in snap.flags["declared"]:
            return REF, "name in use"
        if cid not in self.device.channels:
            return DC, "unknown id"
        ch = self.device.channels[cid]
        if not self.reusable and cid in self.used_ids:
            return REF, "channel id already declared on a non-reusable device"
        if self.mode == "xy" and ch.basis != "XY":
            return REF, "non-XY channel in XY mode"
        if self.mode == "ising" and ch.basis == "XY":
            return REF, "XY channel in Ising mode"
        if name.startswith("dmm_"):
            return DC, "reserved name"
        if initial_target is not None:
            if ch.addressing != "Local":
                return DC, "initial target on global"
            if not self._valid_targets(ch, initial_target, snap):
                return DC, "initial target"
        if self.mode is None and self.slm and ch.basis != "XY":
            # first Ising channel triggers the pending SLM DMM configuration
            return DC, "pending SLM side effect"
        return ACC, ""

    def predict(self, op, snap):
        k = op["op"]
        dev = self.device
        if k == "declare_channel":
            return self.declare_verdict(op["name"], op["channel_id"], op.get("initial_target"), snap)
        if k == "config_detuning_map":
            did = op["dmm_id"]
            if self.measured:
                return REF, "measured"
            if did not in dev.dmm_channels:
                return DC, "unknown dmm"
            if self.mode == "xy":
                return REF, "DMM in XY mode"
            if getattr(self, "slm_ambiguous", False):
                return DC, "several SLM configurations stored"
            if not self.reusable and (did in self.used_ids or did == self.slm_dmm_id):
                return REF, "DMM already declared on a non-reusable device"
            if self.mode is None and self.slm:
                return DC, "pending SLM side effect"
            return ACC, ""
        if k == "measure":
            if self.measured:
                return REF, "measured twice"
            bases = set(dev.supported_bases)
            ok = (op["basis"] == "XY") if self.mode == "xy" else (op["basis"] in bases - {"XY"})
            return (ACC, "") if ok else (DC, "basis")
        if k == "config_slm_mask":
            if self.measured and self.mode == "ising" and not self.parametrized:
                return REF, "timeline-changing after measurement"
            return DC, ""
        if k in ("set_magnetic_field", "phase_shift", "phase_shift_index", "declare_variable"):
            return DC, ""
        # ------------------------------------------------ channel-bound ops
        name = op.get("ch")
        if k == "align":
            if self.measured:
                return REF, "measured"
            return DC, ""
        if name not in self.chans:
            return DC, "undeclared channel"
        c = self.chans[name]
        ch = c["obj"]
        if k in ("add", "add_var"):
            if self.measured:
                return REF, "measured"
            if c["is_dmm"]:
                return DC, "add on dmm"
            if c["in_eom"]:
                return REF, "ordinary pulse in EOM mode"
            if ch.addressing == "Local" and not c["has_target"]:
                # parametrized sequences defer this validation to build()
                if self.parametrized or k == "add_var":
                    return DC, "validated at build time"
                return REF, "local channel without target"
            if k == "add_var":
                return (ACC, "") if op["var"] in self.vars and not op.get("foreign") else (DC, "variable")
            if self.parametrized:
                return (ACC, "") if op.get("_safe") else (DC, "")
            if not self._single_ref(name, snap):
                return DC, "targets with different phase references"
            return (ACC, "") if op.get("_safe") and self._fits(snap) and self._delay_ok(name, snap) else (DC, "")
        if k == "add_dmm_detuning":
            if self.measured:
                return REF, "measured"
            if not c["is_dmm"]:
                return DC, ""
            return (ACC, "") if op.get("_safe") and self._fits(snap) and not snap.flags["slm_dmm"] else (DC, "")
        if k == "add_eom_pulse":
            if self.measured:
                return REF, "measured"
            if c["is_dmm"]:
                return DC, ""
            if not c["in_eom"]:
                return REF, "EOM pulse outside EOM mode"
            if not self.parametrized and not self._single_ref(name, snap):
                return DC, "targets with different phase references"
            return (ACC, "") if op.get("_safe") and self._fits(snap) and self._delay_ok(name, snap) else (DC, "")
        if not self.measured and ch.max_duration is not None and ch.max_duration < 1500:
            # buffers / fall waits / retargets must themselves be legal instructions
            if k in ("enable_eom_mode", "disable_eom_mode", "modify_eom_setpoint"):
                return DC, "buffer may exceed max_duration"
            if k in ("target", "target_index") and not c["in_eom"]:
                return DC, "retarget may exceed max_duration"
        if k == "enable_eom_mode":
            if self.measured:
                return REF, "measured"
            if c["is_dmm"] or not ch.supports_eom() or c["in_eom"]:
                return DC, ""
            if ch.addressing == "Local" and not c["has_target"]:
                return DC, ""
            if not self._eom_off_ok(ch, op):
                return DC, "off-detuning outside the channel limits"
            return (ACC, "") if op.get("_safe") and self._fits(snap) else (DC, "")
        if k in ("disable_eom_mode", "modify_eom_setpoint"):
            if self.measured:
                return REF, "measured"
            if not c["in_eom"]:
                return DC, ""
            if k == "disable_eom_mode":
                return (ACC, "") if self._fits(snap) else (DC, "")
            if not self._eom_off_ok(ch, op):
                return DC, "off-detuning outside the channel limits"
            return (ACC, "") if op.get("_safe") and self._fits(snap) else (DC, "")
        if k in ("target", "target_index"):
            if self.measured:
                return REF, "measured"
            if c["is_dmm"] or ch.addressing != "Local":
                return DC, ""
            if c["in_eom"]:
                return REF, "retarget in EOM mode"
            if not self._valid_targets(ch, op["qubits"], snap, index=(k == "target_index")):
                return DC, ""
            return (ACC, "") if self._fits(snap) else (DC, "")
        if k in ("delay", "delay_var"):
            if self.measured:
                return REF, "measured"
            if ch.addressing == "Local" and not c["has_target"]:
                return DC, ""
            if c["is_dmm"] and snap.flags["slm_dmm"]:
                return DC, ""
            if k == "delay_var":
                return (ACC, "") if op["var"] in self.vars and not op.get("foreign") else (DC, "")
            return (ACC, "") if op.get("_safe") and self._fits(snap) else (DC, "")
        # ------------------------------------------------ inspection calls
        if k in ("obs_duration", "obs_phase_ref", "obs_draw", "obs_sample", "obs_estimate"):
            if self.parametrized:
                return REF, "inspection of a parametrized sequence"
            return DC, ""
        return DC, ""

    # ------------------------------------------------------------- update
    def update(self, op, accepted: bool, post):
        if not accepted:
            return
        k = op["op"]
        dev = self.device
        if k == "declare_channel":
            ch = dev.channels[op["channel_id"]]
            self.chans[op["name"]] = {
                "id": op["channel_id"],
                "obj": ch,
                "in_eom": False,
                "has_target": ch.addressing == "Global" or op.get("initial_target") is not None,
                "is_dmm": False,
            }
            self.used_ids.append(op["channel_id"])
            self.mode = "xy" if ch.basis == "XY" else "ising"
        elif k == "config_detuning_map":
            # the declared name is the id, suffixed on reusable devices
            names = [n for n in post.flags["declared"] if n not in self.chans]
            for n in names:
                self.chans[n] = {"id": op["dmm_id"], "obj": dev.dmm_channels[op["dmm_id"]], "in_eom": False, "has_target": True, "is_dmm": True}
            self.used_ids.append(op["dmm_id"])
            self.mode = "ising"
        elif k == "config_slm_mask":
            if self.slm:
                # a second configuration stored by a parametrized sequence
                # (validated at build time): which DMM is bound is undecided
                self.slm_ambiguous = True
            else:
                self.slm_dmm_id = op.get("dmm_id", "dmm_0")
            self.slm = True
            for n in post.flags["declared"]:
                if n not in self.chans:
                    did = self.slm_dmm_id
                    self.chans[n] = {"id": did, "obj": dev.dmm_channels[did], "in_eom": False, "has_target": True, "is_dmm": True}
                    self.used_ids.append(did)
        elif k == "set_magnetic_field":
            self.mode = "xy"
        elif k == "measure":
            self.measured = True
        elif k == "enable_eom_mode":
            # (a call accepted on a name the model does not know was already reported)
            if op["ch"] in self.chans:
                self.chans[op["ch"]]["in_eom"] = True
        elif k == "disable_eom_mode":
            if op["ch"] in self.chans:
                self.chans[op["ch"]]["in_eom"] = False
        elif k in ("target", "target_index"):
            if op["ch"] in self.chans:
                self.chans[op["ch"]]["has_target"] = True
        elif k == "declare_variable":
            self.vars.add(op["name"])
        elif k in ("add_var", "delay_var"):
            self.parametrized = True
        # a pending SLM mask may declare its DMM when Ising mode starts
        for n in post.flags["declared"]:
            if n not in self.chans and n.startswith("dmm_"):
                did = self.slm_dmm_id or "dmm_0"
                if did in dev.dmm_channels:
                    self.chans[n] = {"id": did, "obj": dev.dmm_channels[did], "in_eom": False, "has_target": True, "is_dmm": True}
                    self.used_ids.append(did)


class C13(Oracle):
    def begin(self, ctx, snap):
        self.m = RefType(ctx.sut.device, ctx.qids)

    def step(self, ctx, i, op, pre, out, post, tag):
        v = []
        k = op["op"]
        if k in ops.RESTART or k in ops.CACHE:
            return v
        m = self.m
        if getattr(self, "off", False):
            return v
        if op.get("_nojudge"):
            # a call with an invalid ARGUMENT (fault catalogue): the model has no
            # verdict on it, but a refused call must not move the typestate, which
            # the predicates / available_channels comparison below decides
            verdict, why = DC, "invalid argument"
            if out.ok:
                # accepted after all: the model cannot follow an unknown effect
                self.off = True
                ctx.stats["model_off_after_accepted_bad_call"] += 1
                return v
            ctx.probe("refused_bad_argument_call")
        else:
            verdict, why = m.predict(op, pre)
        modekey = f"{m.mode or 'none'}{'+meas' if m.measured else ''}{'+param' if m.parametrized else ''}"
        ch = op.get("ch")
        if ch in m.chans and m.chans[ch]["in_eom"]:
            modekey += "+eom"
        ctx.stats[f"matrix/{modekey}/{k}/{verdict}/{out.status}"] += 1
        ctx.notes.setdefault("modes", set()).add(modekey)
        if verdict == ACC and not out.ok:
            v.append(("C13/refused", f"{k} in mode [{modekey}] must be accepted but raised {out.exc_type}: {(out.exc_msg or '')[:120]}"))
        elif verdict == REF:
            if out.ok:
                v.append(("C13/accepted", f"{k} in mode [{modekey}] must be refused ({why}) but was accepted"))
            elif pre.timeline_key() != post.timeline_key() or pre.flags["declared"] != post.flags["declared"]:
                v.append(("C13/refused-but-changed", f"{k} in mode [{modekey}] was refused ({why}) but the timeline changed"))
        m.update(op, out.ok, post)
        # observable mode predicates agree with the model
        seq = ctx.sut.seq
        if seq.is_measured() != m.measured:
            v.append(("C13/predicate", f"is_measured() = {seq.is_measured()} but the model says {m.measured} after {k}"))
        if seq.is_parametrized() != m.parametrized:
            v.append(("C13/predicate", f"is_parametrized() = {seq.is_parametrized()} but the model says {m.parametrized} after {k}"))
        for name, c in m.chans.items():
            if c["is_dmm"]:
                continue
            try:
                got = seq.is_in_eom_mode(name)
            except Exception as e:  # noqa: BLE001
                v.append(("C13/predicate", f"is_in_eom_mode({name}) raised {type(e).__name__}"))
                continue
            if got != c["in_eom"]:
                v.append(("C13/predicate", f"is_in_eom_mode({name}) = {got} but the model says {c['in_eom']} after {k}"))
        if not m.measured:
            avail = set(seq.available_channels)
            for cid in ctx.sut.device.channels:
                vd, _ = m.declare_verdict("fresh_name_x", cid, None, post)
                if vd == ACC and cid not in avail:
                    v.append(("C13/available", f"channel id {cid} can be declared (mode {m.mode}) but is not in available_channels"))
                elif vd == REF and cid in avail:
                    v.append(("C13/available", f"channel id {cid} cannot be declared (mode {m.mode}) but is listed in available_channels"))
        return v


def nontrivial(ctx, st) -> bool:
    return len(ctx.notes.get("modes", ())) >= 4


# --------------------------------------------------------------- the walker
class TypestateActor:
    """Attempts every building op from every reachable mode, arguments valid."""

    name = "walker"

    def __init__(self, budget: int):
        self.budget = budget
        self.nvar = 0
        self.ndecl = 0

    def runnable(self, snap):
        return self.budget > 0

    def next_op(self, rng: random.Random, snap, ctx):
        from ..faults import _valid_amp, _valid_d

        self.budget -= 1
        dev = ctx.sut.device
        qids = ctx.qids
        names = list(snap.flags["declared"])
        kinds = {
            "declare_channel": 3 if len(names) < 5 else 0.5,
            "config_detuning_map": 0.7 if dev.dmm_channels else 0,
            "config_slm_mask": 0.5 if dev.dmm_channels else 0,
            "set_magnetic_field": 0.2,
            "measure": 0.35,
            "declare_variable": 0.3 if self.nvar < 2 else 0,
            "bad_argument": 1.2,
        }
        if names:
            kinds.update({
                "add": 4, "add_eom_pulse": 2, "enable_eom_mode": 1.5, "disable_eom_mode": 1, "modify_eom_setpoint": 0.7,
                "target": 1.5, "delay": 1.5, "align": 0.7, "phase_shift": 0.5, "add_dmm_detuning": 0.7,
                "obs_duration": 0.4, "obs_phase_ref": 0.2, "obs_sample": 0.3, "obs_estimate": 0.3, "obs_str": 0.2,
            })
            if ctx.sut.vars:
                kinds.update({"add_var": 0.8, "delay_var": 0.4})
        k = G.wpick(rng, kinds)
        if k == "bad_argument":
            from .. import faults

            cat = faults.bad_calls(snap, ctx)
            if not cat:
                return {"op": "obs_str"}
            tag, op = cat[rng.randrange(len(cat))]
            return dict(op, _nojudge=True, _bad=tag)
        if k == "declare_channel":
            ids = list(dev.channels)
            cid = G.pick(rng, ids)
            ch = dev.channels[cid]
            self.ndecl += 1
            name = f"w{self.ndecl}" if rng.random() < 0.85 or not names else G.pick(rng, [n for n in names])
            op = {"op": "declare_channel", "name": name, "channel_id": cid}
            if ch.addressing == "Local" and rng.random() < 0.6:
                op["initial_target"] = G.pick(rng, qids)
            return op
        if k == "config_detuning_map":
            ws = {q: 0.0 for q in qids}
            ws[qids[0]] = 1.0
            return {"op": k, "weights": ws, "dmm_id": G.pick(rng, list(dev.dmm_channels))}
        if k == "config_slm_mask":
            return {"op": k, "qubits": [qids[0]], "dmm_id": G.pick(rng, list(dev.dmm_channels))}
        if k == "set_magnetic_field":
            return {"op": k, "b": [0.0, 0.0, 25.0]}
        if k == "measure":
            bases = sorted(dev.supported_bases)
            return {"op": k, "basis": G.pick(rng, bases)}
        if k == "declare_variable":
            self.nvar += 1
            return {"op": k, "name": f"v{self.nvar}"}
        name = G.pick(rng, names)
        cs = snap.channels.get(name)
        tbl = {**dev.channels, **dev.dmm_channels}
        if cs is not None:
            ch = cs.obj
        else:
            from pulser.channels.dmm import _dmm_id_from_name

            ch = tbl.get(_dmm_id_from_name(name)) if name.startswith("dmm_") else None
            if ch is None:
                return {"op": "obs_str"}
        d = _valid_d(ch)
        a = _valid_amp(ch)
        if k == "add":
            return {"op": k, "ch": name, "pulse": {"amp": {"w": "const", "d": d, "v": a}, "det": {"w": "const", "d": d, "v": 0.0}, "phase": G.pick(rng, [0.0, 1.0])}, "_safe": True}
        if k == "add_dmm_detuning":
            return {"op": k, "ch": name, "wf": {"w": "const", "d": d, "v": -0.5}, "_safe": True}
        if k == "add_eom_pulse":
            return {"op": k, "ch": name, "d": d, "phase": G.pick(rng, [0.0, 1.0]), "_safe": True}
        if k in ("enable_eom_mode", "modify_eom_setpoint"):
            return {"op": k, "ch": name, "amp_on": a, "det_on": 0.0, "_safe": True}
        if k == "disable_eom_mode":
            return {"op": k, "ch": name}
        if k == "target":
            return {"op": k, "qubits": G.pick(rng, qids), "ch": name}
        if k == "delay":
            return {"op": k, "d": d, "ch": name, "_safe": True}
        if k == "align":
            return {"op": k, "chs": rng.sample(names, min(len(names), 2)) if len(names) >= 2 else [name]}
        if k == "phase_shift":
            return {"op": k, "phi": 0.5, "targets": [qids[0]], "basis": ch.basis}
        if k == "add_var":
            return {"op": k, "ch": name, "var": G.pick(rng, sorted(ctx.sut.vars)), "d": d}
        if k == "delay_var":
            return {"op": k, "ch": name, "var": G.pick(rng, sorted(ctx.sut.vars))}
        if k == "obs_duration":
            return {"op": k, "ch": name}
        if k == "obs_phase_ref":
            return {"op": k, "qubit": qids[0], "basis": ch.basis}
        if k == "obs_estimate":
            return {"op": k, "ch": name, "pulse": {"amp": {"w": "const", "d": d, "v": a}, "det": {"w": "const", "d": d, "v": 0.0}, "phase": 0.0}}
        return {"op": k}
