"""C07: phase references are additive and applied to every pulse (RefPhase)."""
from __future__ import annotations

import math

from .. import ops
from . import Oracle
from . import sched as S

TWO_PI = 2 * math.pi
TOL = 1e-9


def cdiff(a: float, b: float) -> float:
    """Circular distance between two angles."""
    d = (a - b) % TWO_PI
    return min(d, TWO_PI - d)


class RefPhase:
    """Exact accumulator of every shift applied per (basis, atom)."""

    def __init__(self, qids):
        self.qids = list(qids)
        self.shifts: dict = {}  # basis -> q -> list of floats
        self.last_used: dict = {}  # basis -> q -> int
        self.shift_time: dict = {}  # basis -> q -> int

    def ensure(self, basis):
        if basis not in self.shifts:
            self.shifts[basis] = {q: [] for q in self.qids}
            self.last_used[basis] = {q: 0 for q in self.qids}
            self.shift_time[basis] = {q: 0 for q in self.qids}

    def ref(self, basis, q) -> float:
        self.ensure(basis)
        return math.fsum(self.shifts[basis][q]) % TWO_PI

    def shift(self, basis, qs, phi: float):
        self.ensure(basis)
        for q in qs:
            self.shifts[basis][q].append(float(phi))
            self.shift_time[basis][q] = self.last_used[basis][q]

    def used(self, basis, qs, tf: int):
        self.ensure(basis)
        for q in qs:
            self.last_used[basis][q] = max(self.last_used[basis][q], tf)


def _t_last(cs_pre, block_ti: int) -> int:
    last = S.last_real_pulse(cs_pre)
    return max(block_ti, last.tf if last is not None else 0)


class C07(Oracle):
    def begin(self, ctx, snap):
        self.m = RefPhase(ctx.qids)

    def step(self, ctx, i, op, pre, out, post, tag):
        v = []
        k = op["op"]
        if post.parametrized or pre.parametrized:
            return v
        m = self.m
        if out.ok and k in ops.MUTATING:
            v += self.apply(ctx, op, pre, post)
        for basis in post.phase:
            m.ensure(basis)
        # (1) references equal the sum of all shifts, in every basis
        for basis, refs in post.phase.items():
            for q, (times, phases, last_used) in refs.items():
                exp = m.ref(basis, q)
                if cdiff(phases[-1], exp) > TOL:
                    v.append((
                        "C07/reference",
                        f"after {k}: phase reference of {q!r} in {basis} is {phases[-1]!r}, the sum of all shifts is {exp!r} "
                        f"({len(m.shifts[basis][q])} shifts)",
                    ))
                if times[-1] != m.shift_time[basis][q]:
                    v.append((
                        "C07/shift-time",
                        f"after {k}: latest phase shift of {q!r} in {basis} is stamped at {times[-1]}, "
                        f"the latest pulse using it when shifted ended at {m.shift_time[basis][q]}",
                    ))
        return v

    def apply(self, ctx, op, pre, post):
        try:
            return self._apply(ctx, op, pre, post)
        finally:
            # automatic pulses on a DMM (SLM mask) use every atom they act on;
            # they are scheduled after the call's own pulse and phase shift
            for other, ocs in post.channels.items():
                if ocs.is_dmm and other != op.get("ch"):
                    n0 = len(pre.channels[other].slots) if other in pre.channels else 0
                    for s in ocs.slots[n0:]:
                        if s.kind in ("pulse", "ddelay"):
                            self.m.used("ground-rydberg", s.targets, s.tf)
                            ctx.probe("slm_dmm_autopulse")

    def _apply(self, ctx, op, pre, post):
        v = []
        k = op["op"]
        m = self.m
        qids = ctx.qids
        if k in ("phase_shift", "phase_shift_index"):
            tg = op["targets"]
            if k == "phase_shift_index":
                tg = [qids[i] for i in tg]
            if not tg:
                tg = qids
            m.shift(op["basis"], set(tg), op["phi"])
            ctx.probe("explicit_shift")
            return v
        if k in ("add", "add_eom_pulse", "add_dmm_detuning"):
            name = op["ch"]
            pcs, qcs = pre.channels[name], post.channels[name]
            new = S.new_slots(pcs, qcs)
            if not new or new[-1].kind not in ("pulse", "ddelay"):
                return v
            slot = new[-1]
            basis = pcs.obj.basis
            tg = pcs.slots[-1].targets
            m.ensure(basis)
            # (3) never before the latest phase shift of its targets
            bar = max(m.shift_time[basis][q] for q in tg)
            if slot.ti < bar:
                v.append(("C07/barrier", f"{k} on {name}: pulse starts at {slot.ti}, before the latest phase shift of its targets ({bar})"))
            elif bar > pcs.end:
                ctx.probe("barrier_delayed_pulse")
            if not pcs.is_dmm:
                ref = m.ref(basis, tg[0])
                prog = op["pulse"]["phase"] if k == "add" else op["phase"]
                pps = (op["pulse"].get("pps", 0.0) if k == "add" else op.get("pps", 0.0))
                drift = 0.0
                if k == "add_eom_pulse" and op.get("cpd"):
                    blk = pcs.eom_blocks[-1]
                    det_off = blk[4]
                    drift = -det_off * (slot.ti - _t_last(pcs, blk[0])) * 1e-3
                    if det_off != 0:
                        ctx.probe("drift_corrected_pulse")
                exp = (prog + ref - drift) % TWO_PI
                got = float(slot.pulse.phase)
                if cdiff(got, exp) > TOL:
                    v.append((
                        "C07/pulse-phase",
                        f"{k} on {name}: scheduled phase {got!r}, expected programmed {prog!r} + reference {ref!r}"
                        + (f" - drift {drift!r}" if drift else "") + f" = {exp!r}",
                    ))
                elif ref != 0:
                    ctx.probe("pulse_after_shift")
                m.used(basis, tg, slot.tf)
                tot = pps - drift
                if (pps % TWO_PI) != 0.0 or drift != 0.0:
                    m.shift(basis, tg, tot)
                    ctx.probe("post_phase_shift")
            else:
                m.used(basis, tg, slot.tf)
            return v
        if k == "enable_eom_mode" and op.get("cpd"):
            name = op["ch"]
            pcs, qcs = pre.channels[name], post.channels[name]
            blk = qcs.eom_blocks[-1]
            det_off = blk[4]
            from .c02 import expected_fall_ends

            new = S.new_slots(pcs, qcs)
            buf_tf = qcs.end
            tg = qcs.slots[-1].targets
            # the drift runs from the moment the channel is at rest
            rests = expected_fall_ends(pcs) if pcs.slots else {0}
            cands = [det_off * (buf_tf - r) * 1e-3 for r in rests]
            basis = pcs.obj.basis
            got = post.phase_ref(basis, tg[0])
            before = m.ref(basis, tg[0])
            pick = min(cands, key=lambda c: cdiff((before + c) % TWO_PI, got))
            m.shift(basis, tg, pick)
            if det_off != 0 and new:
                ctx.probe("drift_corrected_enable")
            return v
        if k == "disable_eom_mode" and op.get("cpd"):
            name = op["ch"]
            pcs, qcs = pre.channels[name], post.channels[name]
            blk = pcs.eom_blocks[-1]
            det_off = blk[4]
            tf_block = qcs.eom_blocks[-1][1]
            tg = qcs.slots[-1].targets
            drift = -det_off * (tf_block - _t_last(pcs, blk[0])) * 1e-3
            m.shift(pcs.obj.basis, tg, -drift)
            if det_off != 0:
                ctx.probe("drift_corrected_disable")
            return v
        if k == "modify_eom_setpoint" and op.get("cpd"):
            name = op["ch"]
            pcs, qcs = pre.channels[name], post.channels[name]
            old = pcs.eom_blocks[-1]
            newb = qcs.eom_blocks[-1]
            new = S.new_slots(pcs, qcs)
            buf_ti = new[0].ti if new else pcs.end
            buf_tf = qcs.end
            tg = qcs.slots[-1].targets
            drift = -old[4] * (buf_ti - _t_last(pcs, old[0])) * 1e-3 + -newb[4] * (buf_tf - buf_ti) * 1e-3
            m.shift(pcs.obj.basis, tg, -drift)
            ctx.probe("drift_corrected_modify")
            return v
        return v


def nontrivial(ctx, st) -> bool:
    s = ctx.stats
    return s.get("probe/explicit_shift", 0) + s.get("probe/post_phase_shift", 0) >= 3 and s.get("probe/pulse_after_shift", 0) >= 1
