"""C14 (partially decided): output modulation on the states a run produces.

Decided: modulated sampling succeeds whenever plain sampling does and has the
right length; tail bound of every scheduled pulse's amplitude beyond its
accounted fall time; no output overlap of scheduler-separated pulses;
superposition / integral / sign / maximum / length on the run's channel
arrays; cache independence of fall times.
"""
from __future__ import annotations

import warnings

import numpy as np

from .. import ops
from . import Oracle, fall_time, slot_in_eom
from . import sched as S


def _arr(x):
    return np.asarray(x.as_array(detach=True) if hasattr(x, "as_array") else x, dtype=float)


def _bw_tr(ch, in_eom: bool):
    if in_eom and ch.supports_eom():
        return ch.eom_config.mod_bandwidth, ch.eom_config.rise_time
    return ch.mod_bandwidth, ch.rise_time


def tail_of(ch, samples: np.ndarray, in_eom: bool, pad_factor: int = 4):
    """Untruncated modulated output of `samples` (zero-phase), with its padding."""
    bw, tr = _bw_tr(ch, in_eom)
    P = pad_factor * tr
    y = _arr(ch.apply_modulation(np.pad(samples, P), bw))
    return y, P, tr


class C14(Oracle):
    def __init__(self, every: int = 5):
        self.every = every

    def begin(self, ctx, snap):
        self.falls: dict = {}

    def step(self, ctx, i, op, pre, out, post, tag):
        v = []
        k = op["op"]
        if post.parametrized:
            return v
        if out.ok and k in S.PULSE_OPS:
            v += self.check_new_pulse(ctx, op, pre, post)
        if k in ops.CACHE or (k in ops.RESTART and out.ok):
            v += self.check_cache(ctx, post, after=k)
        else:
            self.remember(ctx, post)
        if post.channels and (
            (k == "obs_sample" and op.get("modulation"))
            or (k in ops.MUTATING and out.ok and i % self.every == 0)
        ):
            v += self.check_sampling(ctx, post, op.get("extended") if k == "obs_sample" else None)
        return v

    def end(self, ctx, snap):
        if snap.parametrized or not snap.channels:
            return ()
        return self.check_sampling(ctx, snap, None) + self.check_arrays(ctx, snap) + self.check_tone(ctx, snap)

    def check_tone(self, ctx, snap):
        """A tone AT the modulation bandwidth is halved: evaluated with the run's
        channel objects at their own (and EOM) bandwidth and at one seeded
        bandwidth up to the 480 MHz a channel may declare. The tone sits on an
        FFT bin (2000 samples, bandwidths in steps of 0.5 MHz), so the gain is
        exact."""
        v = []
        for name, cs in snap.channels.items():
            ch = cs.obj
            if not ch.mod_bandwidth:
                continue
            bws = {float(ch.mod_bandwidth)}
            if ch.supports_eom():
                bws.add(float(ch.eom_config.mod_bandwidth))
            bws.add([60.0, 250.0, 430.0, 450.5, 479.5][(snap.channels[name].end + len(name)) % 5])
            n = np.arange(2000)
            for bw in sorted(bws):
                if (bw * 2) % 1:
                    continue
                x = np.cos(2 * np.pi * bw * 1e-3 * n)
                y = _arr(ch.apply_modulation(x, bw))
                gain = float(np.abs(y).max() / np.abs(x).max())
                ctx.stats["tone_gains_checked"] += 1
                if abs(gain - 0.5) > 1e-6:
                    v.append(("C14/tone-at-bandwidth", f"{name}: a tone at the modulation bandwidth {bw} MHz comes out with gain {gain:.6f}, not 0.5"))
                    return v
            break
        return v

    # ------------------------------------------------------------ (e) caches
    def remember(self, ctx, snap):
        for name, cs in snap.channels.items():
            if not cs.obj.mod_bandwidth:
                continue
            for s in cs.slots[-3:]:
                if s.kind in ("pulse", "ddelay"):
                    key = (name, s.ti, s.tf)
                    if key not in self.falls:
                        self.falls[key] = fall_time(s, cs, slot_in_eom(s, cs))

    def check_cache(self, ctx, snap, after):
        v = []
        for name, cs in snap.channels.items():
            for s in cs.slots:
                key = (name, s.ti, s.tf)
                if key in self.falls:
                    now = fall_time(s, cs, slot_in_eom(s, cs))
                    ctx.probe("fall_time_recomputed_after_cache_fault")
                    if now != self.falls[key]:
                        v.append(("C14/cache", f"{name}: fall time of pulse {s.ti}->{s.tf} was {self.falls[key]}, is {now} after {after}"))
        return v

    # ------------------------------------------------------------ (b), (c)
    def check_new_pulse(self, ctx, op, pre, post):
        v = []
        name = op["ch"]
        pcs, qcs = pre.channels[name], post.channels[name]
        ch = pcs.obj
        if not ch.mod_bandwidth:
            return v
        new = S.new_slots(pcs, qcs)
        if not new or new[-1].kind != "pulse":
            return v
        s = new[-1]
        in_eom = slot_in_eom(s, qcs)
        a = _arr(s.pulse.amplitude.samples)
        if not len(a) or a.max() <= 0 or qcs.is_dmm:
            return v
        y, P, tr = tail_of(ch, a, in_eom)
        n = len(a)
        fall = fall_time(s, qcs, in_eom)
        bound = max(0.01, 0.006 * float(a.max()))
        beyond = y[P + n + fall - tr + 1 :]
        ctx.stats["tail_checked"] += 1
        if len(beyond) and beyond.max() >= bound:
            v.append((
                "C14/tail-amp",
                f"{name}: pulse {s.ti}->{s.tf} (peak {a.max():.4g}): modulated amplitude reaches {beyond.max():.4g} "
                f"beyond its accounted fall time {fall} (bound {bound:.4g}, bandwidth {_bw_tr(ch, in_eom)[0]} MHz)",
            ))
        elif fall > tr:
            ctx.probe("tail_with_end_buffer")
        # (c) the previous pulse's output is over when a separated pulse starts
        prev = [x for x in pcs.slots if x.kind == "pulse"]
        proto = S.op_protocol(op)
        if prev and proto != "no-delay" and float(prev[-1].pulse.phase) != float(s.pulse.phase):
            p1 = prev[-1]
            a1 = _arr(p1.pulse.amplitude.samples)
            if len(a1) and a1.max() > 0:
                e1 = slot_in_eom(p1, pcs)
                y1, P1, tr1 = tail_of(ch, a1, e1)
                b1 = max(0.01, 0.006 * float(a1.max()))
                idx = P1 + (s.ti - p1.ti) - tr1 + 1
                rest = y1[max(idx, 0):]
                if len(rest) and rest.max() >= b1:
                    v.append((
                        "C14/overlap",
                        f"{name}: output of pulse {p1.ti}->{p1.tf} is still {rest.max():.4g} (bound {b1:.4g}) when the separated pulse {s.ti}->{s.tf} starts",
                    ))
                else:
                    ctx.probe("separated_pulses_checked")
        v += self.check_other_channels(ctx, name, s, proto, post)
        return v

    def check_other_channels(self, ctx, name, s, proto, post):
        """(c) across channels: when a pulse added with 'min-delay' / 'wait-for-all'
        starts, the output of the latest pulse of every other modulated channel it
        had to wait for (shared target; any channel for wait-for-all) is over."""
        v = []
        if proto not in ("min-delay", "wait-for-all"):
            return v
        mine = set(s.targets)
        for other, ocs in post.channels.items():
            if other == name or not ocs.obj.mod_bandwidth:
                continue
            for p1 in reversed(ocs.slots):
                if p1.ti >= s.ti:
                    continue
                if p1.kind == "ddelay" and (other, p1.ti, p1.tf) not in ctx.user_pulses:
                    continue  # automatic detuned delay (EOM idle time), not a pulse
                if p1.kind not in ("pulse", "ddelay"):
                    continue
                if proto == "min-delay" and not (mine & set(p1.targets)):
                    continue
                a1 = _arr(p1.pulse.amplitude.samples)
                if not len(a1) or a1.max() <= 0:
                    # the statement separates a pulse from the MOST RECENT pulse of
                    # the other channel; a user-added zero-amplitude pulse is one
                    ctx.stats["cross_channel_latest_pulse_has_no_amplitude"] += 1
                    break
                e1 = slot_in_eom(p1, ocs)
                y1, P1, tr1 = tail_of(ocs.obj, a1, e1)
                b1 = max(0.01, 0.006 * float(a1.max()))
                idx = P1 + (s.ti - p1.ti) - tr1 + 1
                rest = y1[max(idx, 0):]
                ctx.stats["cross_channel_outputs_checked"] += 1
                if len(rest) and rest.max() >= b1:
                    v.append((
                        "C14/cross-overlap",
                        f"{name}: pulse {s.ti}->{s.tf} added with {proto} starts while the output of {other}'s pulse {p1.ti}->{p1.tf} (shared targets {sorted(mine & set(p1.targets), key=str)}) is still {rest.max():.4g} (bound {b1:.4g})",
                    ))
                    return v
                if p1.tf + fall_time(p1, ocs, e1) > s.ti - 50:
                    ctx.probe("cross_channel_tail_near_start")
                break  # the most recent qualifying pulse of that channel
        return v

    # ------------------------------------------------------------ (a)
    def check_sampling(self, ctx, snap, extended):
        from pulser.sampler import sample

        v = []
        seq = ctx.sut.seq
        try:
            plain = sample(seq, extended_duration=extended)
        except Exception:  # noqa: BLE001 - C06 judges plain sampling
            return v
        try:
            with warnings.catch_warnings():
                warnings.simplefilter("ignore")
                mod = sample(seq, modulation=True, extended_duration=extended)
        except Exception as e:  # noqa: BLE001
            return [("C14/modulated-sampling-raised", f"sample(modulation=True{', extended_duration=%d' % extended if extended else ''}) raised {type(e).__name__}: {str(e)[:120]} although plain sampling succeeds")]
        ctx.stats["mod_observations"] += 1
        empty = [n for n, cs in snap.channels.items() if cs.end == 0]
        if empty:
            ctx.probe("modulated_sampling_with_empty_channel")
        for name, cs in snap.channels.items():
            chs = mod.channel_samples[name]
            want = extended if extended else seq.get_duration(name, include_fall_time=True)
            if extended and extended < cs.end:
                continue
            for key in ("amp", "det", "phase"):
                n = len(_arr(getattr(chs, key)))
                if n != want:
                    v.append(("C14/modulated-length", f"{name}: modulated {key} has {n} samples, expected {want} (channel ends at {cs.end}, in_eom={cs.in_eom})"))
                    break
        return v

    # ------------------------------------------------------------ (d)
    def check_arrays(self, ctx, snap):
        from pulser.sampler import sample

        v = []
        try:
            ss = sample(ctx.sut.seq)
        except Exception:  # noqa: BLE001
            return v
        for name, cs in snap.channels.items():
            ch = cs.obj
            if not ch.mod_bandwidth or cs.end == 0 or cs.is_dmm:
                continue
            A = _arr(ss.channel_samples[name].amp)
            with warnings.catch_warnings():
                warnings.simplefilter("ignore")
                out = _arr(ch.modulate(A))
            tr = ch.rise_time
            scale = max(1.0, float(A.max()))
            if len(out) != len(A) + 2 * tr:
                v.append(("C14/length", f"{name}: modulate() returned {len(out)} samples for {len(A)} inputs and rise time {tr}"))
                continue
            # the implementation pads by one rise time only: compare integrals
            # on the untruncated output
            y, P, _ = tail_of(ch, A, False, pad_factor=6)
            if abs(y.sum() - A.sum()) > 1e-9 * max(1.0, abs(A.sum())):
                v.append(("C14/integral", f"{name}: integral {A.sum()!r} became {y.sum()!r} after modulation"))
            if y.min() < -1e-9 * scale:
                v.append(("C14/negative", f"{name}: modulated amplitude reaches {y.min()!r}"))
            if y.max() > A.max() + 1e-9 * scale:
                v.append(("C14/above-max", f"{name}: modulated amplitude reaches {y.max()!r} > input maximum {A.max()!r}"))
            if not np.allclose(out, y[P - tr : P + len(A) + tr], rtol=0, atol=2e-2 * scale):
                v.append(("C14/modulate-frame", f"{name}: modulate() output is not the filtered input extended by one rise time at each end"))
            # superposition over the pulses of the run
            tot = np.zeros(len(y))
            parts = 0
            for s in cs.slots:
                if s.kind == "pulse":
                    one = np.zeros(len(A))
                    one[s.ti : s.tf] = _arr(s.pulse.amplitude.samples)
                    tot += tail_of(ch, one, False, pad_factor=6)[0]
                    parts += 1
            if parts and not np.allclose(tot, y, rtol=0, atol=1e-9 * scale):
                v.append(("C14/superposition", f"{name}: modulating the sum of {parts} pulses differs from the sum of their modulations by {np.abs(tot - y).max()!r}"))
            elif parts >= 2:
                ctx.probe("superposition_checked")
        return v


def nontrivial(ctx, st) -> bool:
    return ctx.stats.get("tail_checked", 0) >= 2 and ctx.stats.get("mod_observations", 0) >= 1
