"""C15: EOM mode - square pulses, physical off-detuning, buffers."""
from __future__ import annotations

import math

import numpy as np

from . import Oracle, fall_time, slot_in_eom
from . import sched as S


def _arr(x):
    return np.asarray(x.as_array(detach=True) if hasattr(x, "as_array") else x, dtype=float)


# ------------------------------------------------ independent light-shift model
def detuning_off_options(eom: dict, rabi: float, det_on: float) -> list[float]:
    """Off-detuning options from the documented two-photon light-shift physics.

    Effective Rabi frequency  Omega = Omega_r * Omega_b / (2 Delta);
    light shift of the beams that are on  (c_b Omega_b^2 - c_r Omega_r^2) / (4 Delta);
    below the limiting beam's saturation the beams are balanced so that the
    total light shift vanishes; above it the limiting beam stays at its maximum.
    """
    D = eom["intermediate_detuning"]
    cb, cr = eom.get("blue_shift_coeff", 1.0), eom.get("red_shift_coeff", 1.0)
    lim = eom["limiting_beam"]
    amax = eom["max_limiting_amp"]
    other = "BLUE" if lim == "RED" else "RED"
    c = {"RED": cr, "BLUE": cb}
    # balanced: c_lim * A_lim^2 == c_other * A_other^2 and A_lim*A_other = 2 D Omega
    prod = 2 * D * rabi
    a_lim2 = prod * math.sqrt(c[other] / c[lim])
    if a_lim2 <= amax**2:
        amp2 = {lim: a_lim2, other: prod * math.sqrt(c[lim] / c[other])}
    else:
        amp2 = {lim: amax**2, other: (prod / amax) ** 2}

    def shift(on):
        s = 0.0
        if "BLUE" in on:
            s += cb * amp2["BLUE"]
        if "RED" in on:
            s -= cr * amp2["RED"]
        return s / (4 * D)

    offset = det_on - shift({"RED", "BLUE"})
    ctrl = list(eom["controlled_beams"])
    combos = [{b} for b in ctrl]
    if len(ctrl) > 1 and eom.get("multiple_beam_control", True):
        combos.append({"RED", "BLUE"})
    return [offset + shift({"RED", "BLUE"} - off) for off in combos]


def eom_spec(ctx, cs) -> dict | None:
    """The EOM configuration of a declared channel as plain numbers."""
    e = cs.obj.eom_config
    if e is None:
        return None
    return {
        "mod_bandwidth": e.mod_bandwidth,
        "custom_buffer_time": e.custom_buffer_time,
        "limiting_beam": e.limiting_beam.name,
        "max_limiting_amp": e.max_limiting_amp,
        "intermediate_detuning": e.intermediate_detuning,
        "controlled_beams": [b.name for b in e.controlled_beams],
        "multiple_beam_control": e.multiple_beam_control,
        "blue_shift_coeff": e.blue_shift_coeff,
        "red_shift_coeff": e.red_shift_coeff,
    }


def rest_ends(cs) -> set:
    """Admissible 'fully ramped down' instants of the channel (both readings of
    which bandwidth governs the last pulse's tail)."""
    from .c02 import expected_fall_ends

    ps = cs.pulse_slots()
    if not ps:
        return {cs.end}
    p = ps[-1]
    return {max(cs.end, p.tf + fall_time(p, cs, m)) for m in (True, False)} | expected_fall_ends(cs)


class C15(Oracle):
    def step(self, ctx, i, op, pre, out, post, tag):
        v = []
        if post.parametrized or pre.parametrized:
            return v
        k = op["op"]
        # (1)+(2): every slot inside a block, after every step
        for name, cs in post.channels.items():
            for (bti, btf, rabi, don, doff) in cs.eom_blocks:
                end = btf if btf is not None else cs.end
                for s in cs.slots:
                    if s.ti < bti or s.ti >= end or s.ti < 0:
                        continue
                    if s.kind == "pulse":
                        a, d = _arr(s.pulse.amplitude.samples), _arr(s.pulse.detuning.samples)
                        if not (np.all(a == rabi) and np.all(d == don)):
                            v.append(("C15/not-square", f"{name}: pulse {s.ti}->{s.tf} inside the EOM block set at ({rabi!r}, {don!r}) has amp {a[0]!r}..{a[-1]!r}, det {d[0]!r}..{d[-1]!r}"))
                    elif s.kind == "ddelay":
                        d = _arr(s.pulse.detuning.samples)
                        if not np.all(d == doff):
                            v.append(("C15/idle-detuning", f"{name}: idle {s.ti}->{s.tf} inside the EOM block has detuning {d[0]!r}, off-detuning is {doff!r}"))
                    elif s.kind == "delay" and doff != 0 and s.tf > s.ti:
                        v.append(("C15/idle-detuning", f"{name}: plain delay {s.ti}->{s.tf} inside an EOM block whose off-detuning is {doff!r}"))
        if not out.ok:
            return v
        if k in ("enable_eom_mode", "modify_eom_setpoint"):
            v += self.check_setpoint(ctx, op, pre, post)
        if k == "enable_eom_mode":
            v += self.check_enable_buffer(ctx, op, pre, post, wait=True)
        elif k == "modify_eom_setpoint":
            v += self.check_enable_buffer(ctx, op, pre, post, wait=False)
        elif k == "disable_eom_mode":
            v += self.check_disable(ctx, op, pre, post)
        elif k == "add_eom_pulse":
            ctx.probe("eom_pulse")
        return v

    def check_setpoint(self, ctx, op, pre, post):
        v = []
        name = op["ch"]
        cs = post.channels[name]
        spec = eom_spec(ctx, cs)
        blk = cs.eom_blocks[-1]
        rabi, don, doff = blk[2], blk[3], blk[4]
        if rabi != float(op["amp_on"]) or don != float(op["det_on"]):
            v.append(("C15/setpoint", f"{name}: block set at ({rabi!r}, {don!r}) but ({op['amp_on']!r}, {op['det_on']!r}) was requested"))
        opts = detuning_off_options(spec, rabi, don)
        want = float(op.get("opt_off", 0.0))
        tol = 1e-9 * max(1.0, max(abs(o) for o in opts))
        if min(abs(doff - o) for o in opts) > tol:
            v.append(("C15/off-detuning-not-allowed", f"{name}: off-detuning {doff!r} is not one of the values allowed by the EOM configuration {opts}"))
        else:
            best = min(abs(o - want) for o in opts)
            if abs(doff - want) > best + tol:
                v.append(("C15/off-detuning-not-closest", f"{name}: off-detuning {doff!r} chosen for optimum {want!r}, but {min(opts, key=lambda o: abs(o - want))!r} is closer (options {opts})"))
            elif len(opts) > 1:
                ctx.probe("off_detuning_choice")
        if doff != 0:
            ctx.probe("block_with_nonzero_off_detuning")
        return v

    def check_enable_buffer(self, ctx, op, pre, post, wait: bool):
        v = []
        name = op["ch"]
        pcs, qcs = pre.channels[name], post.channels[name]
        ch = pcs.obj
        new = S.new_slots(pcs, qcs)
        blk = qcs.eom_blocks[-1]
        doff = blk[4]
        if blk[0] != qcs.end:
            v.append(("C15/block-start", f"{name}: EOM block starts at {blk[0]}, channel ends at {qcs.end}"))
        if pcs.end == 0:
            if new:
                v.append(("C15/buffer", f"{name}: enabling EOM mode on an empty channel inserted {[s.key()[:3] for s in new]}"))
            return v
        buf_t = S.adjust(ch, int(ch.eom_config.custom_buffer_time or 2 * ch.rise_time))
        # expected: [fall wait] + one buffer
        ok = False
        msgs = []
        rests = rest_ends(pcs) if wait else {pcs.end}
        for rest in rests:
            exp_start = pcs.end if rest <= pcs.end else pcs.end + S.adjust(ch, rest - pcs.end)
            exp_n = 1 if exp_start == pcs.end else 2
            if len(new) != exp_n:
                msgs.append(f"expected {exp_n} new instruction(s) (rest at {rest}), got {len(new)}")
                continue
            buf = new[-1]
            want_kind = "ddelay" if doff != 0 else "delay"
            if exp_n == 2 and (new[0].kind != "delay" or new[0].tf != exp_start):
                msgs.append(f"fall wait {new[0].key()[:3]} should end at {exp_start}")
                continue
            if buf.ti != exp_start or buf.tf - buf.ti != buf_t or buf.kind != want_kind:
                msgs.append(f"buffer {buf.key()[:3]} should be a {want_kind} {exp_start}->{exp_start + buf_t}")
                continue
            if buf.kind == "ddelay" and not np.all(_arr(buf.pulse.detuning.samples) == doff):
                msgs.append("buffer detuning is not the off-detuning")
                continue
            ok = True
            if exp_n == 2:
                ctx.probe("enable_waited_for_fall")
            break
        if not ok:
            v.append(("C15/buffer", f"{name}: {op['op']} after an instruction ending at {pcs.end}: " + "; ".join(msgs)))
        else:
            ctx.probe("eom_buffer_detuned" if doff != 0 else "eom_buffer_plain")
        return v

    def check_disable(self, ctx, op, pre, post):
        v = []
        name = op["ch"]
        pcs, qcs = pre.channels[name], post.channels[name]
        ch = pcs.obj
        new = S.new_slots(pcs, qcs)
        blk = qcs.eom_blocks[-1]
        if blk[1] != pcs.end:
            v.append(("C15/block-end", f"{name}: EOM block closed at {blk[1]}, channel ended at {pcs.end}"))
        custom = ch.eom_config.custom_buffer_time
        if custom:
            exp = S.adjust(ch, int(custom))
            if len(new) != 1 or new[0].kind != "delay" or new[0].tf - new[0].ti != exp:
                v.append(("C15/disable-buffer", f"{name}: disabling should add one delay of the configured buffer {exp}, got {[s.key()[:3] for s in new]}"))
            else:
                ctx.probe("disable_custom_buffer")
        else:
            oks = []
            for rest in rest_ends(pcs):
                if rest <= pcs.end:
                    oks.append(len(new) == 0)
                else:
                    oks.append(len(new) == 1 and new[0].kind == "delay" and new[0].tf == pcs.end + S.adjust(ch, rest - pcs.end))
            if not any(oks):
                v.append(("C15/disable-buffer", f"{name}: disabling should wait for the last pulse to ramp down (rest at {sorted(rest_ends(pcs))}), got {[s.key()[:3] for s in new]}"))
            elif new:
                ctx.probe("disable_waited_for_fall")
        return v


def nontrivial(ctx, st) -> bool:
    s = ctx.stats
    return s.get("probe/block_with_nonzero_off_detuning", 0) >= 1 and s.get("probe/eom_pulse", 0) >= 2
