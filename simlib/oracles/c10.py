"""C10: phase-jump time and retarget intervals are honoured."""
from __future__ import annotations

from . import Oracle, fall_time, slot_in_eom
from . import sched as S


def nonzero_pulses(cs):
    return [s for s in cs.slots if s.kind == "pulse"]


class C10(Oracle):
    def step(self, ctx, i, op, pre, out, post, tag):
        v = []
        if not out.ok or pre.parametrized or post.parametrized:
            return v
        k = op["op"]
        if k in ("add", "add_eom_pulse"):
            v += self.check_phase_jump(ctx, op, pre, post)
        elif k in ("target", "target_index"):
            v += self.check_retarget(ctx, op, pre, post)
        return v

    def check_phase_jump(self, ctx, op, pre, post):
        v = []
        name = op["ch"]
        if name not in pre.channels or name not in post.channels:
            return v
        pcs, qcs = pre.channels[name], post.channels[name]
        new = S.new_slots(pcs, qcs)
        if not new or new[-1].kind != "pulse":
            return v
        p2 = new[-1]
        prev = nonzero_pulses(pcs)
        if not prev:
            return v
        p1 = prev[-1]
        proto = S.op_protocol(op)
        ph1, ph2 = float(p1.pulse.phase), float(p2.pulse.phase)
        if ph1 == ph2:
            return v
        if abs(ph1 - ph2) < 1e-9 or abs(abs(ph1 - ph2) - 6.283185307179586) < 1e-9:
            ctx.stats["ambiguous_phase"] += 1
            return v
        if proto == "no-delay":
            ctx.probe("phase_change_no_delay")
            return v
        ch = pcs.obj
        if pcs.in_eom:
            # "the channel's phase-jump time ... (twice the EOM rise time at least, in EOM mode)"
            J = max(ch.phase_jump_time, 2 * ch.eom_config.rise_time)
        else:
            J = ch.phase_jump_time
        need = J + fall_time(p1, pcs, slot_in_eom(p1, pcs))
        gap = p2.ti - p1.tf
        if gap < need:
            v.append((
                "C10/phase-jump",
                f"{name}: pulses {p1.ti}->{p1.tf} (phase {ph1:.6g}) and {p2.ti}->{p2.tf} (phase {ph2:.6g}) are {gap} ns apart, "
                f"need phase-jump {J} + fall {need - J} = {need} (in_eom={pcs.in_eom}, protocol {proto})",
            ))
        else:
            if need > 0:
                ctx.probe("phase_change_with_buffer")
            if gap == need:
                ctx.probe("phase_change_exact_gap")
            if pcs.in_eom:
                ctx.probe("phase_change_in_eom")
        return v

    def check_retarget(self, ctx, op, pre, post):
        v = []
        name = op["ch"]
        if name not in pre.channels or name not in post.channels:
            return v
        pcs, qcs = pre.channels[name], post.channels[name]
        if not pcs.slots:
            return v  # initial target
        ch = pcs.obj
        new = S.new_slots(pcs, qcs)
        cur = set(pcs.slots[-1].targets)
        want = set(qcs.slots[-1].targets)
        tnew = [s for s in new if s.kind == "target"]
        # the channel now addresses exactly the atoms that were ASKED for
        asked = op.get("qubits")
        if asked is not None and not post.parametrized:
            qs = list(asked) if isinstance(asked, (list, tuple)) else [asked]
            if op["op"] == "target_index":
                qs = [ctx.qids[i] for i in qs if isinstance(i, int) and 0 <= i < len(ctx.qids)] if all(isinstance(i, int) for i in qs) else None
            if qs is not None and set(map(str, qs)) != set(map(str, want)):
                v.append(("C10/target-not-applied", f"{name}: {op['op']}({asked}) returned normally but the channel addresses {sorted(map(str, want))}"))
                return v
        # the fall-time wait before any retarget is allowed; nothing else
        others = [s for s in new if s.kind != "target"]
        pulses = [s for s in pcs.slots if s.kind in ("pulse", "ddelay")]
        from .c02 import expected_fall_ends

        rest = pcs.end  # strict reading: fall time by the pulse's own mode
        rest_any = {pcs.end}  # every reading of "pending fall time"
        if pulses:
            # the last real pulse and any detuned delay after it
            for p in reversed(pulses):
                rest = max(rest, p.tf + fall_time(p, pcs, slot_in_eom(p, pcs)))
                if p.kind == "pulse":
                    break
            p = pulses[-1]
            rest_any = {max(pcs.end, p.tf + fall_time(p, pcs, m)) for m in (True, False)} | expected_fall_ends(pcs)
        if want == cur and tnew:
            ctx.probe("retarget_same_atoms")
            v.append(("C10/same-target-inserted", f"{name}: retargeting to the same atoms {sorted(want, key=str)} inserted a target instruction {[s.key()[:3] for s in tnew]}"))
            return v
        if want == cur and not tnew:
            ctx.probe("retarget_same_atoms")
            if len(others) > 1 or (others and others[0].kind != "delay"):
                v.append(("C10/same-target-inserted", f"{name}: retargeting to the same atoms inserted {[s.key()[:3] for s in new]}"))
            elif others:
                d = others[0]
                ok = {pcs.end + S.adjust(ch, r - pcs.end) for r in rest_any if r > pcs.end}
                if not ok:
                    v.append(("C10/same-target-inserted", f"{name}: retargeting to the same atoms inserted a delay {d.ti}->{d.tf} with no pending fall time"))
                elif d.tf not in ok:
                    v.append(("C10/same-target-inserted", f"{name}: retargeting to the same atoms inserted a delay {d.ti}->{d.tf}, not the pending fall time (would end at {sorted(ok)})"))
            return v
        if not tnew:
            return v
        s2 = tnew[-1]
        prev_t = [s for s in pcs.slots if s.kind == "target"][-1]
        mri = ch.min_retarget_interval or 0
        frt = ch.fixed_retarget_t or 0
        if s2.tf - prev_t.tf < mri:
            v.append(("C10/retarget-interval", f"{name}: target instructions end at {prev_t.tf} and {s2.tf}, less than min_retarget_interval {mri} apart"))
        elif mri and s2.tf - prev_t.tf == mri:
            ctx.probe("retarget_clipped_to_interval")
        if s2.tf - s2.ti < frt:
            v.append(("C10/fixed-retarget", f"{name}: retarget {s2.ti}->{s2.tf} shorter than fixed_retarget_t {frt}"))
        elif frt:
            ctx.probe("fixed_retarget_applied")
        if pulses and s2.ti < rest:
            v.append(("C10/retarget-before-fall", f"{name}: retarget starts at {s2.ti} but the previous pulse is not over before {rest}"))
        elif pulses and rest > pcs.end:
            ctx.probe("retarget_waited_for_fall")
        return v


def nontrivial(ctx, st) -> bool:
    s = ctx.stats
    return s.get("probe/phase_change_with_buffer", 0) >= 1 and (
        s.get("probe/retarget_clipped_to_interval", 0) + s.get("probe/fixed_retarget_applied", 0) + s.get("probe/retarget_waited_for_fall", 0) >= 1
    )
