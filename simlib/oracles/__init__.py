"""Oracles, one module per property."""


class Oracle:
    """Base class. step() returns an iterable of (oracle_id, message)."""

    def begin(self, ctx, snap):
        pass

    def step(self, ctx, i, op, pre, out, post, tag):
        return ()

    def end(self, ctx, snap):
        return ()


def fall_time(slot, cs, in_eom: bool) -> int:
    """The real fall time of a pulse slot (trusted input, see DESIGN 2.6)."""
    ch = cs.obj
    if in_eom and not ch.supports_eom():
        in_eom = False
    return int(slot.pulse.fall_time(ch, in_eom_mode=in_eom))


def slot_in_eom(slot, cs) -> bool:
    return cs.in_eom_at(slot.ti)
