"""C02: channel timelines are gap-free, non-overlapping and clock-aligned."""
from __future__ import annotations

import re

from .. import ops
from . import Oracle, fall_time, slot_in_eom


def check_tiling(cs, label="C02") -> list:
    v = []
    ch = cs.obj
    clock, mn = ch.clock_period, ch.min_duration
    slots = cs.slots
    if not slots:
        return v
    s0 = slots[0]
    if not (s0.kind == "target" and s0.ti == -1 and s0.tf == 0):
        v.append((f"{label}/first-slot", f"{cs.name}: first slot is {s0.key()[:3]}"))
    for k in range(1, len(slots)):
        a, b = slots[k - 1], slots[k]
        if b.ti != a.tf:
            kind = "gap" if b.ti > a.tf else "overlap"
            v.append((f"{label}/{kind}", f"{cs.name}: slot {k} starts {b.ti}, previous ends {a.tf}"))
        if b.tf < b.ti or b.ti < 0:
            v.append((f"{label}/negative", f"{cs.name}: slot {k} {b.ti}->{b.tf}"))
        if b.tf % clock or b.ti % clock:
            v.append((f"{label}/clock", f"{cs.name}: slot {k} {b.kind} {b.ti}->{b.tf} not on clock {clock}"))
        if b.kind in ("pulse", "ddelay"):
            if b.tf - b.ti != b.pulse.duration:
                v.append((f"{label}/pulse-length", f"{cs.name}: slot {k} spans {b.tf - b.ti}, pulse lasts {b.pulse.duration}"))
        if b.kind in ("delay", "ddelay") and b.tf - b.ti < mn:
            v.append((f"{label}/short-delay", f"{cs.name}: {b.kind} {b.ti}->{b.tf} shorter than min_duration {mn}"))
        if b.kind == "target" and 0 < b.tf - b.ti < mn:
            v.append((f"{label}/short-retarget", f"{cs.name}: retarget {b.ti}->{b.tf} shorter than min_duration {mn}"))
        if b.kind == "delay" and b.tf == b.ti:
            v.append((f"{label}/empty-delay", f"{cs.name}: zero-length delay at {b.ti}"))
    return v


def expected_fall_ends(cs) -> set:
    """Admissible values of get_duration(ch, include_fall_time=True)."""
    end = cs.end
    out = set()
    ps = cs.pulse_slots()
    real = [s for s in ps if s.kind == "pulse"]
    if not ps:
        return {end}
    for cand in {ps[-1], (real[-1] if real else ps[-1])}:
        for mode in {slot_in_eom(cand, cs), cs.in_eom}:
            out.add(max(end, cand.tf + fall_time(cand, cs, mode)))
    # detuned delays are transparent: the real pulse behind them counts too
    trail = []
    for s in reversed(ps):
        trail.append(s)
        if s.kind == "pulse":
            break
    for mode_fn in (lambda s: slot_in_eom(s, cs), lambda s: cs.in_eom, lambda s: True, lambda s: False):
        out.add(max([end] + [s.tf + fall_time(s, cs, mode_fn(s)) for s in trail]))
    return out


_LINE = re.compile(r"^t: (\d+)->(\d+) \| ")


def parse_str(text: str) -> dict:
    """Channel -> list of (ti, tf) as printed by str(seq)."""
    out: dict = {}
    cur = None
    for line in text.splitlines():
        if line.startswith("Channel: "):
            cur = line[len("Channel: "):]
            out[cur] = []
        elif cur is not None:
            m = _LINE.match(line)
            if m:
                out[cur].append((int(m.group(1)), int(m.group(2))))
            elif line.startswith("t: 0 | Initial targets"):
                out[cur].append((-1, 0))
    return out


class C02(Oracle):
    def step(self, ctx, i, op, pre, out, post, tag):
        v = []
        k = op["op"]
        if post.parametrized:
            return v
        for name, cs in post.channels.items():
            v += check_tiling(cs)
            if k not in ops.RESTART and name in pre.channels and not pre.parametrized:
                a = pre.channels[name].slots
                b = cs.slots
                if len(b) < len(a) or any(x.key() != y.key() for x, y in zip(a, b)):
                    v.append(("C02/moved", f"{name}: already scheduled instructions changed during {k}"))
        if out.ok and k in ops.MUTATING:
            for name, cs in post.channels.items():
                if name in pre.channels and len(cs.slots) > len(pre.channels[name].slots):
                    ctx.stats["new_slots"] += len(cs.slots) - len(pre.channels[name].slots)
        # reported durations
        seq = ctx.sut.seq
        ends = []
        for name, cs in post.channels.items():
            d = seq.get_duration(name)
            ends.append(cs.end)
            if d != cs.end:
                v.append(("C02/duration", f"{name}: get_duration {d} but last instruction ends {cs.end}"))
            df = seq.get_duration(name, include_fall_time=True)
            exp = expected_fall_ends(cs)
            if df not in exp:
                v.append(("C02/duration-fall", f"{name}: get_duration(fall) {df}, expected one of {sorted(exp)}"))
            elif df > cs.end:
                ctx.probe("pending_fall_time")
        if post.channels:
            per = [seq.get_duration(n, include_fall_time=True) for n in post.channels]
            totf = seq.get_duration(include_fall_time=True)
            if totf != max(per):
                v.append(("C02/seq-duration-fall", f"sequence duration incl. fall time {totf} != max over channels {max(per)} ({per})"))
            elif len(per) > 1 and max(per) > max(ends) and per.index(max(per)) != ends.index(max(ends)):
                ctx.probe("fall_time_of_non_latest_channel_decides")
        tot = seq.get_duration()
        if tot != (max(ends) if ends else 0):
            v.append(("C02/seq-duration", f"sequence duration {tot} != max channel end {max(ends) if ends else 0}"))
        if k == "obs_str" and out.ok:
            v += self.check_str(out.value, post)
        if k == "obs_sample" and out.ok or (k in ops.MUTATING and out.ok and i % 5 == 0):
            v += self.check_samples_slots(ctx, post)
        return v

    def check_str(self, text, snap):
        v = []
        parsed = parse_str(text)
        for name, cs in snap.channels.items():
            exp = [(s.ti, s.tf) for s in cs.slots]
            if parsed.get(name) != exp:
                v.append(("C02/str-view", f"{name}: printed instruction times {parsed.get(name)} != schedule {exp}"))
        return v

    def check_samples_slots(self, ctx, snap):
        from pulser.sampler import sample

        v = []
        if not snap.channels:
            return v
        try:
            ss = sample(ctx.sut.seq)
        except Exception as e:  # noqa: BLE001 - C06/C14 judge sampling failures
            ctx.stats["sample_raised"] += 1
            return v
        for name, cs in snap.channels.items():
            chs = ss.channel_samples[name]
            ps = cs.pulse_slots()
            got = [(s.ti, tuple(sorted(s.targets, key=str))) for s in chs.slots]
            exp = [(s.ti, tuple(sorted(s.targets, key=str))) for s in ps]
            if got != exp:
                v.append(("C02/samples-view", f"{name}: sampled pulse slots {got} != schedule {exp}"))
            tg = [(s.ti, s.tf) for s in chs.target_time_slots]
            exp_t = [(s.ti, s.tf) for s in cs.slots if s.kind == "target"]
            if tg != exp_t:
                v.append(("C02/samples-targets", f"{name}: sampled target slots {tg} != schedule {exp_t}"))
            if len(chs.amp) != cs.end:
                v.append(("C02/samples-length", f"{name}: sampled length {len(chs.amp)} != channel end {cs.end}"))
        return v

    def end(self, ctx, snap):
        if snap.parametrized:
            return ()
        v = []
        o = ops.issue(ctx.sut, {"op": "obs_str"})
        if o.ok:
            v += self.check_str(o.value, snap)
        v += self.check_samples_slots(ctx, snap)
        return v


def nontrivial(ctx, st) -> bool:
    snap = st.cur
    auto = 0
    # automatically inserted delays = delay slots not matching an explicit delay call count
    n_delay_slots = sum(1 for cs in snap.channels.values() for s in cs.slots if s.kind in ("delay", "ddelay"))
    n_delay_calls = sum(1 for r in st.trace if r["op"]["op"] == "delay" and r["outcome"] == "ok" and r["op"].get("d"))
    auto = n_delay_slots - n_delay_calls
    return len(snap.channels) >= 2 and auto >= 2
