"""C03: protocols - no conflict (safety), minimal delay, exact estimate, align."""
from __future__ import annotations

import json

from .. import ops
from . import Oracle, fall_time
from . import sched as S
from .c02 import expected_fall_ends


def _pulse_key(op: dict) -> str:
    """Identity of the pulse an op adds, comparable with an obs_estimate op."""
    k = op["op"]
    if k == "add":
        return json.dumps([op["ch"], op["pulse"], S.op_protocol(op)], sort_keys=True)
    return ""


class C03(Oracle):
    def begin(self, ctx, snap):
        self.last_est = None  # (step, key, value)

    def step(self, ctx, i, op, pre, out, post, tag):
        v = []
        k = op["op"]
        if k == "obs_estimate":
            if out.ok:
                key = json.dumps([op["ch"], op["pulse"], op.get("protocol", "min-delay")], sort_keys=True)
                self.last_est = (i, key, int(out.value), op)
                v += self.check_estimate_vs_model(ctx, op, pre, int(out.value))
            else:
                self.last_est = None
            return v
        if k in ops.CACHE:
            return v
        est = self.last_est
        self.last_est = None
        if not out.ok or pre.parametrized or post.parametrized:
            return v
        if k in S.PULSE_OPS:
            v += self.check_pulse(ctx, op, pre, post, est, i)
        elif k == "align":
            v += self.check_align(ctx, op, pre, post)
        return v

    # ------------------------------------------------------------ pulses
    def check_pulse(self, ctx, op, pre, post, est, i):
        v = []
        name = S.op_channel(op)
        if name not in pre.channels or name not in post.channels:
            return v
        pcs, qcs = pre.channels[name], post.channels[name]
        new = S.new_slots(pcs, qcs)
        if not new or new[-1].kind not in ("pulse", "ddelay"):
            return v
        slot = new[-1]
        # the fall time is a trusted input of the bounds below; minimality needs it
        # not to be too LONG either: each of the two terms (aligned start, end
        # buffer) is at most the rise time of the modulator the pulse goes through
        ch = qcs.obj
        if slot.kind == "pulse" and getattr(ch, "mod_bandwidth", None):
            eom = qcs.in_eom_at(slot.ti) and ch.supports_eom()
            rt = int(ch.eom_config.rise_time if eom else ch.rise_time)
            ft = fall_time(slot, qcs, eom)
            if ft > 2 * rt:
                v.append(("C03/fall-time-above-two-rise-times", f"the pulse {slot.ti}->{slot.tf} on {name} ({'EOM' if eom else 'regular'} mode) is given a fall time of {ft} ns, more than twice the rise time ({rt} ns) of the modulator it goes through: later pulses wait longer than the rule requires"))
            else:
                ctx.probe("fall_time_upper_bound_checked")
        proto = S.op_protocol(op)
        t0 = pcs.end
        ti = slot.ti
        new_phase = float(slot.pulse.phase)
        cpd = bool(op.get("cpd"))
        # ---------------- safety (strict reading, never relaxed)
        sb = S.safety_bounds(ctx, pre, name, proto)
        for other, (bound, s) in sb.items():
            if ti < bound:
                v.append((
                    "C03/conflict",
                    f"{op['op']} on {name} with {proto} starts at {ti}, but the latest pulse of {other} "
                    f"({s.ti}->{s.tf}, targets {s.targets}) is not over before {bound} (fall time included)",
                ))
            elif bound > t0:
                ctx.probe("conflict_forced_delay")
        bar = S.barrier(pre, name)
        if ti < bar:
            v.append(("C03/barrier", f"{op['op']} on {name} starts at {ti} before the phase-shift barrier {bar}"))
        # ---------------- minimality / exact placement
        starts, info = S.predict_starts(ctx, pre, name, proto, new_phase, cpd)
        if ti not in starts:
            v.append((
                "C03/not-minimal",
                f"{op['op']} on {name} with {proto}: starts at {ti}, earliest admissible start(s) {sorted(starts)} "
                f"(t0={t0}, {info})",
            ))
        else:
            d = ti - t0
            if d > 0:
                ctx.probe("inserted_delay")
                ch = pcs.obj
                raw = max(info["barrier"], info.get("phase_jump") or 0, max(b for key, b in info.items() if key.startswith("conflict"))) - t0
                if raw > 0 and S.adjust(ch, raw) != raw:
                    ctx.probe("conflict_delay_rounded_up")
                if info.get("phase_jump") and info["phase_jump"] > t0:
                    ctx.probe("phase_jump_buffer_applied")
                if info["barrier"] > t0:
                    ctx.probe("phase_barrier_applied")
        # ---------------- the delay is materialised as slots
        if len(new) > 2:
            v.append(("C03/extra-slots", f"{op['op']} on {name} inserted {len(new)} instructions"))
        # ---------------- estimate == inserted delay
        if est is not None and op["op"] == "add":
            if est[1] == _pulse_key(op):
                ctx.probe("estimate_then_add")
                if est[2] != ti - t0:
                    v.append((
                        "C03/estimate",
                        f"estimate_added_delay said {est[2]} but the same add on {name} ({proto}) inserted {ti - t0}",
                    ))
        return v

    def check_estimate_vs_model(self, ctx, op, pre, value):
        v = []
        name = op["ch"]
        if name not in pre.channels or not pre.channels[name].slots:
            return v
        cs = pre.channels[name]
        proto = op.get("protocol", "min-delay")
        # scheduled phase = programmed + reference of the targets
        import math

        basis = cs.obj.basis
        tg = cs.slots[-1].targets
        ref = 0.0 if cs.is_dmm else pre.phase_ref(basis, tg[0])
        new_phase = (op["pulse"]["phase"] % (2 * math.pi) + ref) % (2 * math.pi) if not cs.is_dmm else 0.0
        starts, info = S.predict_starts(ctx, pre, name, proto, new_phase)
        # phase arithmetic of the SUT may differ by an ulp: also try the band
        starts2, _ = S.predict_starts(ctx, pre, name, proto, new_phase, cpd=True)
        last = S.last_real_pulse(cs)
        near = last is not None and abs(float(last.pulse.phase) - new_phase) < 1e-9
        ok = (cs.end + value) in (starts2 if near else starts)
        if not ok:
            v.append((
                "C03/estimate-model",
                f"estimate_added_delay on {name} ({proto}) = {value}, expected start(s) {sorted(starts)} from t0={cs.end} ({info})",
            ))
        else:
            ctx.probe("estimate_checked")
        return v

    # ------------------------------------------------------------- align
    def check_align(self, ctx, op, pre, post):
        v = []
        chs = op["chs"]
        at_rest = op.get("at_rest", True)
        if any(c not in pre.channels or not pre.channels[c].slots for c in chs):
            return v
        if at_rest:
            opts = [expected_fall_ends(pre.channels[c]) for c in chs]
            Ts = {max(x) for x in _product(opts)}
        else:
            Ts = {max(pre.channels[c].end for c in chs)}
        ok_any = False
        msgs = []
        for T in sorted(Ts):
            bad = []
            for c in chs:
                pe, qe = pre.channels[c].end, post.channels[c].end
                exp = pe if pe >= T else pe + S.adjust(pre.channels[c].obj, T - pe)
                if qe != exp:
                    bad.append(f"{c}: ends at {qe}, expected {exp}")
            if not bad:
                ok_any = True
                break
            msgs.append(f"T={T}: " + "; ".join(bad))
        if not ok_any:
            v.append((
                "C03/align",
                f"align({chs}, at_rest={at_rest}) did not bring the channels to the latest end: " + " | ".join(msgs),
            ))
        else:
            if any(post.channels[c].end != pre.channels[c].end for c in chs):
                ctx.probe("align_padded")
            if at_rest and any(max(expected_fall_ends(pre.channels[c])) > pre.channels[c].end for c in chs):
                ctx.probe("align_with_pending_fall")
        return v


def _product(opts):
    from itertools import product

    return product(*opts)


def nontrivial(ctx, st) -> bool:
    return ctx.stats.get("probe/conflict_delay_rounded_up", 0) >= 1 or (
        ctx.stats.get("probe/conflict_forced_delay", 0) >= 1 and ctx.stats.get("probe/inserted_delay", 0) >= 2
    )
