"""C04: sequence serialisation round-trips and is schema-valid (SEQ-SIM part)."""
from __future__ import annotations

import numpy as np

from .. import ops
from . import Oracle
from .c09 import _diff


def _reg_key(seq):
    reg = seq.get_register(include_mappable=True)
    try:
        qs = reg.qubits
    except Exception:  # noqa: BLE001 - mappable
        return ("mappable", tuple(reg.qubit_ids))
    return tuple((q, tuple(round(float(x), 9) for x in np.atleast_1d(np.asarray(c.as_array() if hasattr(c, "as_array") else c)))) for q, c in qs.items())


def _str_ids(snap):
    """Timeline and phase references with every qubit id rendered as a string
    (the abstract representation stringifies integer ids, by documentation)."""
    tl = tuple(
        (n, cs.channel_id, tuple((s.kind, s.ti, s.tf, tuple(sorted(str(q) for q in s.targets)), s.pdig) for s in cs.slots), cs.eom_blocks)
        for n, cs in sorted(snap.channels.items())
    )
    ph = tuple((b, tuple(sorted((str(q), val) for q, val in refs.items()))) for b, refs in sorted(snap.phase.items()))
    return tl, ph


class C04(Oracle):
    def begin(self, ctx, snap):
        self.n_valid = 0

    def roundtrip(self, ctx, op, pre, out, post):
        """obs_roundtrip: the restored object is a separate one (integer-id worlds)."""
        v = []
        kind = op["kind"]
        dev = ctx.world["device"]
        if pre.key() != post.key():
            v.append(("C04/serialising-changed", f"{kind} serialisation changed the sequence: {_diff(pre, post)}"))
        if not out.ok:
            ctx.stats[f"roundtrip_refused/{kind}/{out.exc_type}"] += 1
            if kind == "abstract":
                if out.exc_type != "AbstractReprError":
                    v.append(("C04/serialise-raised", f"abstract-repr round trip raised {out.exc_type}: {(out.exc_msg or '')[:140]}"))
            elif dev["kind"] != "physical":
                v.append(("C04/legacy-raised", f"legacy round trip raised {out.exc_type}: {(out.exc_msg or '')[:140]}"))
            return v
        r = out.value
        rs = r["snap"]
        if _str_ids(pre) != _str_ids(rs):
            a, b = _str_ids(pre), _str_ids(rs)
            what = "timeline" if a[0] != b[0] else "phase references"
            v.append(("C04/roundtrip-differs", f"{kind} round trip (separate object): restored {what} differ: {_diff(pre, rs)}"))
        fl = ("measured", "measure_basis", "in_xy", "in_ising", "mag_field", "parametrized", "empty")
        d1 = {x: pre.flags[x] for x in fl}
        d2 = {x: rs.flags[x] for x in fl}
        if tuple(sorted(map(str, pre.flags["slm_targets"]))) != tuple(sorted(map(str, rs.flags["slm_targets"]))):
            d1["slm_targets"], d2["slm_targets"] = pre.flags["slm_targets"], rs.flags["slm_targets"]
        if d1 != d2:
            v.append(("C04/roundtrip-flags", f"{kind} round trip: flags differ: { {x: (d1[x], d2[x]) for x in d1 if d1[x] != d2[x]} }"))
        if r["seq"].device != ctx.sut.device:
            v.append(("C04/roundtrip-device", f"{kind} round trip: restored device differs from the original"))
        want = tuple((str(q), c) for q, c in _reg_key_from_world(ctx))
        got = tuple((str(q), c) for q, c in _reg_key(r["seq"]))
        if want != got:
            v.append(("C04/roundtrip-register", f"{kind} round trip: restored register differs: {got} vs {want}"))
        if kind == "abstract" and self.n_valid < 3:
            self.n_valid += 1
            from pulser.json.abstract_repr.validation import validate_abstract_repr

            try:
                validate_abstract_repr(r["doc"], "sequence")
                ctx.probe("schema_validated")
            except Exception as e:  # noqa: BLE001
                v.append(("C04/schema-invalid", f"abstract representation is not valid under the published schema: {type(e).__name__}: {str(e)[:160]}"))
        ctx.probe("roundtrip_separate_object")
        if any(not isinstance(q, str) for q in ctx.qids):
            ctx.probe("roundtrip_integer_ids")
        if sum(1 for c in pre.calls if len(c[1]) > 2) >= 1 and len(pre.calls) >= 5:
            ctx.notes["rich_restart"] = True
        return v

    def step(self, ctx, i, op, pre, out, post, tag):
        v = []
        k = op["op"]
        if k == "obs_roundtrip":
            return self.roundtrip(ctx, op, pre, out, post)
        if k not in ("restart_abstract", "restart_legacy"):
            return v
        dev = ctx.world["device"]
        if not out.ok:
            ctx.stats[f"restart_refused/{k}/{out.exc_type}"] += 1
            if pre.key() != post.key():
                v.append(("C04/failed-restart-changed", f"{k} raised and changed the sequence"))
            if k == "restart_abstract":
                if out.exc_type != "AbstractReprError":
                    v.append(("C04/serialise-raised", f"abstract-repr round trip raised {out.exc_type}: {(out.exc_msg or '')[:140]}"))
            else:
                custom_physical = dev["kind"] == "physical"
                if not custom_physical:
                    v.append(("C04/legacy-raised", f"legacy round trip raised {out.exc_type}: {(out.exc_msg or '')[:140]}"))
            return v
        seq = ctx.sut.seq
        # behavioural identity of the restored object
        same = pre.timeline_key() == post.timeline_key() and pre.phase_key() == post.phase_key()
        if not same:
            v.append(("C04/roundtrip-differs", f"{k}: restored sequence differs: {_diff(pre, post)}"))
        fl = ("measured", "measure_basis", "in_xy", "in_ising", "slm_targets", "mag_field", "parametrized", "empty")
        d1 = {x: pre.flags[x] for x in fl}
        d2 = {x: post.flags[x] for x in fl}
        if d1 != d2:
            v.append(("C04/roundtrip-flags", f"{k}: flags differ: { {x: (d1[x], d2[x]) for x in fl if d1[x] != d2[x]} }"))
        if set(pre.flags["declared"]) != set(post.flags["declared"]) or set(pre.flags["available"]) != set(post.flags["available"]):
            v.append(("C04/roundtrip-channels", f"{k}: declared/available channels differ"))
        else:
            # same channels IN THE SAME ORDER (DMM channels are declared by the
            # operation that configures them, so only the others are compared)
            o1 = [n for n in pre.flags["declared"] if not n.startswith("dmm_")]
            o2 = [n for n in post.flags["declared"] if not n.startswith("dmm_")]
            if o1 != o2:
                v.append(("C04/roundtrip-channels", f"{k}: channels are declared in another order after the round trip: {o1} -> {o2}"))
        if ctx.notes.get("device_repr") is None:
            ctx.notes["device_repr"] = repr(ctx.sut.device)
            ctx.notes["reg_key"] = _reg_key_from_world(ctx)
        if seq.device != ctx.sut.device:
            v.append(("C04/roundtrip-device", f"{k}: restored device differs from the original"))
        if _reg_key(seq) != ctx.notes["reg_key"]:
            v.append(("C04/roundtrip-register", f"{k}: restored register differs: {_reg_key(seq)} vs {ctx.notes['reg_key']}"))
        for name, cs in post.channels.items():
            if name in pre.channels and cs.dmm_weights != pre.channels[name].dmm_weights:
                v.append(("C04/roundtrip-detuning-map", f"{k}: detuning map of {name} differs: {pre.channels[name].dmm_weights} -> {cs.dmm_weights}"))
        ctx.probe("restart_" + k.split("_")[1])
        if sum(1 for c in post.calls if len(c[1]) > 2) >= 1 and len(post.calls) >= 5:
            ctx.notes["rich_restart"] = True
        # schema validity (explicitly, also when the run skipped validation)
        if k == "restart_abstract" and self.n_valid < 3:
            self.n_valid += 1
            from pulser.json.abstract_repr.validation import validate_abstract_repr

            try:
                s = seq.to_abstract_repr(skip_validation=True)
                validate_abstract_repr(s, "sequence")
                ctx.probe("schema_validated")
            except Exception as e:  # noqa: BLE001
                v.append(("C04/schema-invalid", f"abstract representation is not valid under the published schema: {type(e).__name__}: {str(e)[:160]}"))
        return v


def _reg_key_from_world(ctx):
    reg = ctx.world["register"]
    return tuple((q, tuple(round(float(x), 9) for x in c)) for q, c in zip(reg["ids"], reg["coords"]))


def nontrivial(ctx, st) -> bool:
    return bool(ctx.notes.get("rich_restart")) and (ctx.stats.get("probe/restart_abstract", 0) + ctx.stats.get("probe/restart_legacy", 0) + ctx.stats.get("probe/roundtrip_separate_object", 0)) >= 1
