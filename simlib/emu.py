"""EMU-SIM: deterministic simulation of QutipEmulator / QutipBackendV2 histories.

A run = a small generated program (from the SEQ-SIM actors) + a seeded history
of emulator reconfigurations with an owned RNG. The harness seeds numpy's
global stream before every noisy step from the run PRNG (seam S7).
"""
from __future__ import annotations

import hashlib
import json
import math
import random
import warnings
from collections import Counter

import numpy as np

from . import actors as A
from . import engine, env, gen as G, observe, ops, world as W
from .engine import RunResult, Violation, stream

RANK = ["u", "d", "r", "g", "h", "x"]


# ------------------------------------------------------------------ programs
def gen_program(seed: int, prop: str, run: int, profile: dict):
    """A small concrete program: (world, trace, final SUT)."""
    wr = stream(seed, prop, run, "world")
    pr = stream(seed, prop, run, "programs")
    il = stream(seed, prop, run, "interleave")
    xy = wr.random() < profile.get("xy_p", 0.25)
    dev = W.gen_device(wr, mode="virtual", xy_p=1.0 if xy else 0.0, bw_bias=profile.get("bw_bias", 0.3))
    for c in dev["channels"]:
        # keep emulated programs short and the drive moderate
        c["max_amp"] = min(c["max_amp"] or 15.0, 15.0)
        c["max_abs_detuning"] = min(c["max_abs_detuning"] or 40.0, 40.0)
        c["min_duration"] = min(c["min_duration"], 16)
    for d in dev.get("dmm", ()):
        # same precondition for the DMM: without a per-atom bottom the generator
        # would draw detunings down to the total bottom (thousands of rad/us),
        # which the ODE solver integrates with percent-level norm drift
        d["bottom_detuning"] = max(d["bottom_detuning"] if d["bottom_detuning"] is not None else -125.66370614359172, -125.66370614359172)
        if d.get("total_bottom_detuning") is not None and d["total_bottom_detuning"] > d["bottom_detuning"]:
            d["bottom_detuning"] = d["total_bottom_detuning"]
    dev["max_sequence_duration"] = None
    reg = W.gen_register(wr, n_min=1, n_max=profile.get("n_max", 3), dim3_p=0.3, int_ids_p=profile.get("int_ids_p", 0.0))
    world = {"device": dev, "register": reg}
    if profile.get("vary_sampling_rate"):
        # per-run tuning knob: the emulator keeps int(rate * T) of the T samples
        world["sampling_rate"] = G.pick(wr, [1.0, 1.0, 1.0, 1.0, 1.0, 0.5, 0.5, 0.3, 0.12])
    prof = A.make_profile(
        w_fault=0.0,
        w_observer=0.0,
        slm_p=profile.get("slm_p", 0.4),
        slm_p_xy=0.8,
        use_xy_p=1.0 if xy else 0.0,
        measure_p=0.2,
        max_steps=profile.get("prog_len", 12),
        ops_per_channel=(1, 4),
        n_channels=(1, 3),
        chan_ops={"add": 10, "delay": 2, "target": 3, "phase_shift": 2, "align": 1, "enable_eom": profile.get("eom_w", 1)},
    )
    ctx = engine.Ctx(world, prof, [])
    st = engine.Stepper(ctx)
    setup = A.SetupActor(pr, world, ctx.sut.device, ctx.sut.register, prof)
    actors = [A.ChannelActor(n, pr.randint(1, 4)) for n in dict.fromkeys(setup.chan_names)]
    late = A.LateActor(pr, setup, prof, ctx.sut.device)
    trace = []
    while ctx.step_no < prof["max_steps"]:
        snap = st.cur
        cands = ([(setup, 6.0)] if setup.runnable(snap) else []) + [(a, 1.0) for a in actors if a.runnable(snap)]
        if late.runnable(snap) and snap.channels and not setup.runnable(snap):
            cands.append((late, 0.5))
        if not cands:
            break
        tot = sum(w for _, w in cands)
        r = il.random() * tot
        acc = 0.0
        ch = cands[-1][0]
        for a, w in cands:
            acc += w
            if r < acc:
                ch = a
                break
        op = ch.next_op(pr, snap, ctx)
        if op is None:
            continue
        # short pulses only
        if op["op"] == "add":
            d = ops.wf_duration(op["pulse"]["amp"])
            if d > profile.get("max_pulse", 300):
                continue
        out = st.step(getattr(ch, "name", "?"), op)
        if out.ok:
            trace.append({"op": op})
    return world, trace


def rebuild(world: dict, trace: list):
    sut = ops.SUT(world)
    for rec in trace:
        ops.issue(sut, rec["op"])
    return sut


# --------------------------------------------------------------------- RefHam
def c6_of(level: int) -> float:
    import os

    import pulser

    p = os.path.join(os.path.dirname(pulser.__file__), "devices", "interaction_coefficients", "C6_coeffs.json")
    with open(p) as f:
        return float(json.load(f)[str(level)])


def used_bases(snap) -> set:
    out = set()
    T = max([c.end for c in snap.channels.values()] or [0])
    for cs in snap.channels.values():
        # a channel left in EOM mode idles at its off-detuning until the end
        if cs.in_eom and cs.eom_blocks[-1][4] != 0 and cs.end < T:
            out.add(cs.obj.basis)
        for s in cs.slots:
            if s.kind in ("pulse", "ddelay"):
                a = observe._arr(s.pulse.amplitude.samples)
                d = observe._arr(s.pulse.detuning.samples)
                if np.any(a != 0) or np.any(d != 0):
                    out.add(cs.obj.basis)
    return out


def eigenbasis(snap, with_leakage=False) -> list:
    ub = used_bases(snap)
    if snap.flags["in_xy"]:
        st = {"u", "d"}
    elif not ub:
        st = {"r", "g"}
    else:
        st = set()
        if "ground-rydberg" in ub:
            st |= {"r", "g"}
        if "digital" in ub:
            st |= {"g", "h"}
    if with_leakage:
        st.add("x")
    return [s for s in RANK if s in st]


LEVELS = {"ground-rydberg": ("g", "r"), "digital": ("h", "g"), "XY": ("d", "u")}


def site_op(mat: np.ndarray, i: int, n: int, d: int) -> np.ndarray:
    out = np.array([[1.0 + 0j]])
    for k in range(n):
        out = np.kron(out, mat if k == i else np.eye(d))
    return out


def ref_hamiltonian(snap, world: dict, t: int, atoms, T: int, mag_field, c3: float, level: int):
    """The documented Hamiltonian at integer time t (None if undefined there).

    atoms: output of c06.render_atoms (basis -> q -> amp, det, cover, undecided).
    """
    states = eigenbasis(snap)
    d = len(states)
    qids = world["register"]["ids"]
    coords = [np.array(c + [0.0] * (3 - len(c)), dtype=float) for c in world["register"]["coords"]]
    n = len(qids)
    idx = {s: k for k, s in enumerate(states)}

    def ketbra(a, b):
        m = np.zeros((d, d), dtype=complex)
        m[idx[a], idx[b]] = 1.0
        return m

    for cs in snap.channels.values():
        # a channel left in EOM mode keeps idling at its off-detuning after its
        # last instruction: not decided here (see C06)
        if cs.in_eom and cs.eom_blocks[-1][4] != 0 and t >= cs.end:
            return None, "undecided"
    H = np.zeros((d**n, d**n), dtype=complex)
    for basis, per_atom in atoms.items():
        a, b = LEVELS[basis]
        if a not in idx or b not in idx:
            continue
        for i, q in enumerate(qids):
            amp, det, cover, und = per_atom[q]
            if t >= len(amp):
                continue
            if und[t]:
                return None, "undecided"
            om, de = amp[t], det[t]
            phis = [p for (ti, tf, p) in cover if ti <= t < tf]
            if om != 0 and len(phis) != 1:
                return None, "overlap"
            phi = phis[0] if phis else 0.0
            if om != 0:
                H += site_op(om / 2 * (np.exp(-1j * phi) * ketbra(a, b) + np.exp(1j * phi) * ketbra(b, a)), i, n, d)
            if de != 0:
                H += site_op(-de * ketbra(b, b), i, n, d)
    if snap.flags["in_xy"]:
        from .oracles.c06 import slm_mask_end

        mend = slm_mask_end(snap)
        masked = set(snap.flags["slm_targets"]) if (mend is not None and t < mend) else set()
        B = np.array(mag_field, dtype=float)
        for i in range(n):
            for j in range(i + 1, n):
                if qids[i] in masked or qids[j] in masked:
                    continue
                r = coords[i] - coords[j]
                R = np.linalg.norm(r)
                cos = float(np.dot(r, B) / (R * np.linalg.norm(B)))
                U = c3 * (1 - 3 * cos**2) / R**3
                ex = site_op(ketbra("u", "d"), i, n, d) @ site_op(ketbra("d", "u"), j, n, d)
                H += U * (ex + ex.conj().T)
    elif "r" in idx:
        c6 = c6_of(level)
        nr = ketbra("r", "r")
        for i in range(n):
            for j in range(i + 1, n):
                R = np.linalg.norm(coords[i] - coords[j])
                H += c6 / R**6 * (site_op(nr, i, n, d) @ site_op(nr, j, n, d))
    return H, "ok"


# ------------------------------------------------------------ config history
def gen_simconfig(rng: random.Random, snap, *, noise_free=False) -> dict:
    """A SimConfig spec (plain JSON)."""
    if noise_free:
        return {"noise": []}
    in_xy = snap.flags["in_xy"]
    ub = used_bases(snap)
    menu = ["SPAM", "doppler", "amplitude", "dephasing", "relaxation", "depolarizing"]
    if in_xy:
        menu = ["SPAM"]
    k = rng.randint(1, min(3, len(menu)))
    noise = rng.sample(menu, k)
    spec = {"noise": noise, "runs": rng.randint(1, 3), "samples_per_run": 1}
    if "SPAM" in noise:
        spec["eta"] = G.pick(rng, [0.0, 0.3, 1.0])
        spec["epsilon"] = G.pick(rng, [0.0, 0.05])
        spec["epsilon_prime"] = G.pick(rng, [0.0, 0.1])
    if "doppler" in noise:
        spec["temperature"] = G.pick(rng, [50.0, 1000.0])
    if "amplitude" in noise:
        spec["amp_sigma"] = G.pick(rng, [0.05, 0.2])
        spec["laser_waist"] = G.pick(rng, [100.0, 175.0])
    if "dephasing" in noise:
        spec["dephasing_rate"] = G.pick(rng, [0.05, 0.5])
        spec["hyperfine_dephasing_rate"] = G.pick(rng, [0.0, 0.05])
    if "relaxation" in noise:
        spec["relaxation_rate"] = G.pick(rng, [0.01, 0.2])
    if "depolarizing" in noise:
        spec["depolarizing_rate"] = G.pick(rng, [0.05, 0.3])
    if rng.random() < 0.15 and any(x in noise for x in ("dephasing", "relaxation", "depolarizing")) and not in_xy:
        spec["with_leakage"] = True
    return spec


def build_simconfig(spec: dict):
    from pulser_simulation import SimConfig

    kw = {"noise": tuple(spec["noise"])}
    for k in ("runs", "samples_per_run", "eta", "epsilon", "epsilon_prime", "temperature", "amp_sigma", "laser_waist", "dephasing_rate", "hyperfine_dephasing_rate", "relaxation_rate", "depolarizing_rate"):
        if k in spec:
            kw[k] = spec[k]
    if spec.get("with_leakage"):
        import qutip

        kw["noise"] = tuple(spec["noise"]) + ("leakage", "eff_noise")
        # a small leakage channel r -> x
        kw["eff_noise_rates"] = [0.05]
        op = np.zeros((3, 3))
        op[2, 0] = 1.0
        kw["eff_noise_opers"] = [qutip.Qobj(op)]
    return SimConfig(**kw)


def hamiltonian_noise_free(spec: dict) -> bool:
    """Noise that leaves the Hamiltonian untouched: detection errors only
    (SPAM with eta = 0) and dissipative channels (collapse operators)."""
    if spec.get("with_leakage"):
        return False
    for n in spec["noise"]:
        if n == "SPAM":
            if spec.get("eta", 0.0) != 0.0:
                return False
        elif n not in ("dephasing", "relaxation", "depolarizing"):
            return False
    return True


def seed_numpy(rng: random.Random) -> int:
    s = rng.getrandbits(32)
    np.random.seed(s)
    return s


# ----------------------------------------------------------------- emulator run
class EmuCtx:
    def __init__(self, world, prog, profile):
        self.world = world
        self.profile = profile
        self.sut = rebuild(world, prog)
        self.seq = self.sut.seq
        self.snap = observe.snapshot(self.seq)
        self.stats: Counter = Counter()
        self.violations: list = []
        self.emu = None
        self.noise_free = True
        self.cfg_spec = {"noise": []}
        self.last_results = None

    def viol(self, oid, step, msg):
        self.violations.append(Violation(oid, step, msg))

    def probe(self, name, n=1):
        self.stats["probe/" + name] += n


def gen_emu_history(rng: random.Random, snap, profile: dict) -> list:
    n = rng.randint(profile.get("hist_min", 2), profile.get("hist_max", 6))
    kinds = profile.get("emu_ops", {"set_config": 3, "add_config": 1.5, "reset_config": 2, "run": 2, "set_evaluation_times": 1, "set_initial_state": 0.7})
    hist = []
    for _ in range(n):
        k = G.wpick(rng, kinds)
        if k in ("set_config", "add_config"):
            hist.append({"op": "e_" + k, "cfg": gen_simconfig(rng, snap)})
        elif k == "reset_config":
            hist.append({"op": "e_reset_config"})
        elif k == "run":
            hist.append({"op": "e_run", "np_seed": rng.getrandbits(32)})
        elif k == "set_evaluation_times":
            hist.append({"op": "e_set_evaluation_times", "value": G.pick(rng, ["Full", "Minimal", 0.5, [0.0, 0.3, 1.0]])})
        else:
            hist.append({"op": "e_set_initial_state", "which": G.pick(rng, ["all-ground", "random"]), "np_seed": rng.getrandbits(32)})
    hist.append({"op": "e_reset_config"})
    return hist


def emu_issue(ctx: EmuCtx, op: dict):
    emu = ctx.emu
    k = op["op"]
    with warnings.catch_warnings():
        warnings.simplefilter("ignore")
        try:
            if k == "e_set_config":
                np.random.seed(op.get("np_seed", 12345))
                emu.set_config(build_simconfig(op["cfg"]))
                ctx.cfg_spec = op["cfg"]
                ctx.noise_free = hamiltonian_noise_free(op["cfg"])
            elif k == "e_add_config":
                np.random.seed(op.get("np_seed", 12345))
                emu.add_config(build_simconfig(op["cfg"]))
                ctx.noise_free = ctx.noise_free and hamiltonian_noise_free(op["cfg"])
            elif k == "e_reset_config":
                emu.reset_config()
                ctx.noise_free = True
                ctx.cfg_spec = {"noise": []}
            elif k == "e_run":
                np.random.seed(op["np_seed"])
                ctx.last_results = emu.run()
            elif k == "e_set_evaluation_times":
                emu.set_evaluation_times(op["value"])
            elif k == "e_set_initial_state":
                if op["which"] == "all-ground":
                    emu.set_initial_state("all-ground")
                else:
                    rs = np.random.RandomState(op["np_seed"])
                    dim = emu.dim ** len(ctx.world["register"]["ids"])
                    v = rs.normal(size=dim) + 1j * rs.normal(size=dim)
                    emu.set_initial_state(v / np.linalg.norm(v))
            else:
                raise ValueError(k)
        except Exception as e:  # noqa: BLE001
            if k in ("e_set_config", "e_add_config"):
                # a refused reconfiguration may have been applied in part: what
                # the Hamiltonian should be is unknown until the next
                # successful set_config / reset_config
                ctx.noise_free = False
            return type(e).__name__, str(e)[:200]
    return None, None


def run_emu(prop: str, seed: int, run: int, profile: dict, checker_factory, doc=None) -> RunResult:
    from pulser_simulation import QutipEmulator

    env.fresh_run_state()
    observe.reset_run_caches()
    if doc is None:
        world, prog = gen_program(seed, prop, run, profile)
        hist = None
    else:
        world = doc["world"]
        prog = [r for r in doc["trace"] if not r["op"]["op"].startswith("e_")]
        hist = [r["op"] for r in doc["trace"] if r["op"]["op"].startswith("e_")]
    ctx = EmuCtx(world, prog, profile)
    chk = checker_factory()
    trace = list(prog)
    h = hashlib.blake2b(digest_size=12)
    stats = ctx.stats
    usable = bool(ctx.snap.channels) and max(c.end for c in ctx.snap.channels.values()) >= 8 and not ctx.snap.parametrized
    if usable:
        try:
            with warnings.catch_warnings():
                warnings.simplefilter("ignore")
                rate = world.get("sampling_rate", profile.get("sampling_rate", 1.0))
                if int(max(c.end for c in ctx.snap.channels.values()) * rate) < 4:
                    rate = 1.0  # fewer than 4 samples is a documented refusal
                ctx.sampling_rate = rate
                ctx.emu = QutipEmulator.from_sequence(ctx.seq, sampling_rate=rate)
        except Exception as e:  # noqa: BLE001
            stats[f"emulator_refused/{type(e).__name__}"] += 1
            chk.on_refused(ctx, e)
            ctx.emu = None
    if ctx.emu is not None:
        stats["emulators"] += 1
        chk.on_start(ctx)
        if hist is None:
            hist = gen_emu_history(stream(seed, prop, run, "faults"), ctx.snap, profile)
        for i, op in enumerate(hist):
            if ctx.violations:
                break
            err = emu_issue(ctx, op)
            trace.append({"op": op, "outcome": "ok" if err[0] is None else "raised:" + err[0]})
            stats[f"op/{op['op']}/{'ok' if err[0] is None else 'raised'}"] += 1
            chk.after_op(ctx, i, op, err)
            h.update((json.dumps(op, sort_keys=True, default=str) + str(err[0]) + "\n").encode())
        if not ctx.violations:
            chk.end(ctx)
    stats["steps"] = len(trace)
    T = max([c.end for c in ctx.snap.channels.values()] or [0])
    tsig = hashlib.blake2b(json.dumps([world["register"], [r["op"] for r in trace]], sort_keys=True, default=str).encode(), digest_size=8).hexdigest()
    return RunResult(
        world=world,
        trace=trace,
        violations=ctx.violations,
        stats=stats,
        digest=h.hexdigest() + hashlib.blake2b(repr(ctx.snap.key()).encode(), digest_size=4).hexdigest(),
        sim_ns=T * max(1, stats.get("op/e_run/ok", 0)),
        n_steps=len(trace),
        ilv_sig=hashlib.blake2b(json.dumps([r["op"]["op"] for r in trace]).encode(), digest_size=8).hexdigest(),
        state_sigs=frozenset(),
        nontrivial=bool(chk.nontrivial(ctx)),
        trace_sig=tsig,
    )


class Checker:
    def on_refused(self, ctx, e):
        pass

    def on_start(self, ctx):
        pass

    def after_op(self, ctx, i, op, err):
        pass

    def end(self, ctx):
        pass

    def nontrivial(self, ctx):
        return True


# --------------------------------------------------------------------- C05
class C05(Checker):
    """The emulated Hamiltonian equals the documented formula."""

    def sample_times(self, ctx) -> list:
        snap = ctx.snap
        T = max(c.end for c in snap.channels.values())
        ts = {0, T, T - 1, 1}
        for cs in snap.channels.values():
            for s in cs.slots:
                for b in (s.ti, s.tf):
                    ts.update({b - 1, b, b + 1})
        rng = random.Random(T * 7919 + len(ts))
        ts.update(rng.randrange(T + 1) for _ in range(8))
        ts = sorted(t for t in ts if 0 <= t <= T)
        if getattr(ctx, "sampling_rate", 1.0) < 1.0:
            # the statement speaks of the SAMPLED times: move every candidate to the
            # nearest instants the emulator kept (between them it interpolates)
            import bisect

            kept = sorted({int(round(float(x) * 1000)) for x in ctx.emu.sampling_times})
            out = set()
            for t in ts:
                k = bisect.bisect_left(kept, t)
                for j in (k - 1, k, k + 1):
                    if 0 <= j < len(kept):
                        out.add(kept[j])
            ctx.stats["instants_on_reduced_grid"] += len(out)
            ctx.probe("reduced_sampling_rate")
            return sorted(out)
        return ts

    def check(self, ctx, step, when):
        from .oracles.c06 import render_atoms

        snap = ctx.snap
        reg = ctx.world["register"]
        coords = {q: c for q, c in zip(reg["ids"], reg["coords"])}
        atoms, T = render_atoms(snap, reg["ids"], coords)
        atoms.pop("_probes", None)
        dev = ctx.sut.device
        mag = snap.flags["mag_field"] or (0.0, 0.0, 30.0)
        n = len(reg["ids"])
        for t in self.sample_times(ctx):
            try:
                Hs = ctx.emu.get_hamiltonian(t).full()
            except Exception as e:  # noqa: BLE001
                ctx.viol("C05/get-hamiltonian-raised", step, f"get_hamiltonian({t}) raised {type(e).__name__}: {str(e)[:100]} ({when})")
                return
            if np.abs(Hs - Hs.conj().T).max() > 1e-12 * max(1.0, np.abs(Hs).max()):
                ctx.viol("C05/not-hermitian", step, f"H({t}) is not Hermitian ({when})")
                return
            Hr, why = ref_hamiltonian(snap, ctx.world, t, atoms, T, mag, dev.interaction_coeff_xy or 0.0, dev.rydberg_level)
            if Hr is None:
                ctx.stats[f"instants_skipped/{why}"] += 1
                continue
            ctx.stats["instants_checked"] += 1
            if Hr.shape != Hs.shape:
                ctx.viol("C05/basis", step, f"H({t}) has shape {Hs.shape}, the addressed bases {sorted(used_bases(snap))} give {Hr.shape} ({when})")
                return
            scale = max(1.0, np.abs(Hr).max())
            dev_ = np.abs(Hs - Hr).max()
            if dev_ > 1e-9 * scale:
                i, j = np.unravel_index(np.abs(Hs - Hr).argmax(), Hs.shape)
                mend = None
                if snap.flags["in_xy"]:
                    from .oracles.c06 import slm_mask_end

                    mend = slm_mask_end(snap)
                oid = "C05/formula"
                if mend is not None and t == mend:
                    ctx.stats["deviation_at_slm_mask_end"] += 1
                ctx.viol(oid, step, f"H({t})[{i},{j}] = {Hs[i, j]!r}, the documented formula gives {Hr[i, j]!r} (max deviation {dev_:.3g}; {when}; basis {eigenbasis(snap)})")
                return
        if n >= 2:
            ctx.probe("multi_atom_hamiltonian")
        if snap.flags["in_xy"]:
            ctx.probe("xy_hamiltonian")
        if any(cs.is_dmm and cs.pulse_slots() for cs in snap.channels.values()):
            ctx.probe("dmm_in_hamiltonian")

    def on_start(self, ctx):
        self.check(ctx, 0, "fresh emulator")

    def after_op(self, ctx, i, op, err):
        if op["op"] == "e_reset_config" and err[0] is None:
            self.check(ctx, i, "after reset_config")
            ctx.probe("checked_after_reset")
        elif op["op"] in ("e_run", "e_set_evaluation_times", "e_set_initial_state", "e_set_config", "e_add_config") and ctx.noise_free and err[0] is None:
            self.check(ctx, i, f"after {op['op']} with a configuration that leaves the Hamiltonian noise-free")
            if op["op"] in ("e_set_config", "e_add_config"):
                ctx.probe("checked_under_detection_or_dissipative_noise")

    def nontrivial(self, ctx):
        snap = ctx.snap
        n = len(ctx.world["register"]["ids"])
        rich = len(snap.channels) >= 2 or any(cs.obj.addressing == "Local" or cs.is_dmm for cs in snap.channels.values()) or bool(snap.flags["slm_targets"])
        return ctx.emu is not None and n >= 2 and rich and ctx.stats.get("instants_checked", 0) > 0


# --------------------------------------------------------------------- C11H
class C11H(Checker):
    """History independence of the legacy emulator: after any reconfiguration
    history, a run under a configuration without stochastic noise equals the
    run of a fresh emulator given that configuration directly."""

    def on_start(self, ctx):
        self.eval_times = "Full"
        self.init = None
        self.added = False

    def after_op(self, ctx, i, op, err):
        from pulser_simulation import QutipEmulator

        k = op["op"]
        if k in ("e_set_config", "e_add_config") and err[0] is not None:
            # a refused reconfiguration may have been applied in part (the
            # statement says nothing about that): nothing is compared until the
            # configuration is set or reset successfully again
            self.unknown_cfg = True
            if op.get("cfg", {}).get("with_leakage") or getattr(self, "leak", False):
                self.leak = None  # the dimension may or may not have changed
            ctx.stats["history_unknown_after_refused_config"] += 1
            return
        if k in ("e_set_config", "e_reset_config") and err[0] is None:
            self.unknown_cfg = False
            self.added = False
            leak = bool(op.get("cfg", {}).get("with_leakage"))
            before = getattr(self, "leak", False)
            if before is None:
                # unknown whether the dimension changed: take the initial state
                # the emulator reports (weaker, sound)
                self.init = ctx.emu.initial_state
            elif leak != before:
                # the basis dimension changes: the emulator documents that it
                # falls back to 'all-ground'
                self.init = None
                ctx.probe("history_dimension_change")
            self.leak = leak
            return
        if k == "e_set_evaluation_times":
            if err[0] is None:
                self.eval_times = op["value"]
            return
        if k == "e_set_initial_state":
            if err[0] is None:
                self.init = ctx.emu.initial_state
            return
        if k == "e_add_config":
            if err[0] is None:
                self.added = True
                if op.get("cfg", {}).get("with_leakage") and getattr(self, "leak", False) is False:
                    # merging a leakage configuration changes the dimension too
                    self.leak = True
                    self.init = None
                    ctx.probe("history_dimension_change")
            return
        if getattr(self, "unknown_cfg", False):
            return
        if k != "e_run" or self.added:
            return
        spec = ctx.cfg_spec
        if err[0] is not None:
            # the reconfigured emulator refuses to run: a fresh one given the
            # same configuration must refuse too
            try:
                with warnings.catch_warnings():
                    warnings.simplefilter("ignore")
                    fresh = QutipEmulator.from_sequence(ctx.seq, sampling_rate=ctx.profile.get("sampling_rate", 1.0), config=build_simconfig(spec) if spec["noise"] else None, evaluation_times=self.eval_times)
                    if self.init is not None:
                        fresh.set_initial_state(self.init)
                    np.random.seed(op["np_seed"])
                    fresh.run()
            except Exception:  # noqa: BLE001
                ctx.stats["history_run_refused_by_both"] += 1
                return
            ctx.viol("C11/history-run-raised", i, f"after the reconfiguration history run() raised {err[0]}: {str(err[1])[:120]} while a fresh emulator with the same configuration {spec} runs")
            return
        spec = ctx.cfg_spec
        if not hamiltonian_noise_free(spec):
            return
        res = ctx.last_results
        if res is None or not hasattr(res, "_results") and not hasattr(res, "states"):
            return
        try:
            with warnings.catch_warnings():
                warnings.simplefilter("ignore")
                fresh = QutipEmulator.from_sequence(ctx.seq, sampling_rate=ctx.profile.get("sampling_rate", 1.0), config=build_simconfig(spec) if spec["noise"] else None, evaluation_times=self.eval_times)
                if self.init is not None:
                    fresh.set_initial_state(self.init)
                np.random.seed(op["np_seed"])
                fres = fresh.run()
        except Exception as e:  # noqa: BLE001
            ctx.viol("C11/history-fresh-refuses", i, f"a fresh emulator with the current configuration raised {type(e).__name__}: {str(e)[:120]} while the reconfigured one ran")
            return
        try:
            a = [np.asarray(s.full()) for s in res.states]
            b = [np.asarray(s.full()) for s in fres.states]
        except Exception:  # noqa: BLE001 - NoisyResults have no states
            return
        if len(a) != len(b):
            ctx.viol("C11/history-dependent", i, f"reconfigured emulator returned {len(a)} states, a fresh one {len(b)}")
            return
        dev = max(np.abs(x - y).max() for x, y in zip(a, b))
        ctx.stats["history_runs_compared"] += 1
        if dev > 2e-4:
            ctx.viol("C11/history-dependent", i, f"after the reconfiguration history the emulator's states differ from a fresh emulator with the same configuration {spec} by {dev:.3g}")
        elif spec["noise"]:
            ctx.probe("history_compared_under_noise")

    def nontrivial(self, ctx):
        return ctx.stats.get("history_runs_compared", 0) >= 1 and ctx.stats.get("op/e_set_config/ok", 0) + ctx.stats.get("op/e_add_config/ok", 0) >= 2
