"""Observation adapter: the only module that reads private Sequence state.

`snapshot(seq)` returns a Snap whose `.key()` is a canonical, hash-order
independent, hashable description of everything the properties talk about.
Renamed private fields make this module raise HarnessError (exit 2), never a
false verdict.
"""
from __future__ import annotations

import hashlib
import inspect
import math
from dataclasses import dataclass, field
from typing import Any

import numpy as np

from .env import HarnessError

_PULSE_CACHE: dict[int, tuple[Any, tuple]] = {}
_SIG_CACHE: dict[str, inspect.Signature] = {}


def reset_run_caches() -> None:
    _PULSE_CACHE.clear()


def _arr(x) -> np.ndarray:
    if hasattr(x, "as_array"):
        return np.asarray(x.as_array(detach=True), dtype=float)
    return np.asarray(x, dtype=float)


def arr_digest(a) -> str:
    a = np.ascontiguousarray(_arr(a), dtype=np.float64)
    return hashlib.blake2b(a.tobytes(), digest_size=8).hexdigest()


def pulse_digest(p) -> tuple:
    ent = _PULSE_CACHE.get(id(p))
    if ent is not None and ent[0] is p:
        return ent[1]
    d = (
        p.amplitude.duration,
        arr_digest(p.amplitude.samples),
        arr_digest(p.detuning.samples),
        float(p.phase),
        float(p.post_phase_shift),
    )
    _PULSE_CACHE[id(p)] = (p, d)
    return d


def sort_ids(ids) -> tuple:
    return tuple(sorted(ids, key=lambda q: (type(q).__name__, str(q))))


@dataclass(frozen=True)
class Slot:
    kind: str  # target | delay | pulse | ddelay (zero-amp constant-detuning)
    ti: int
    tf: int
    targets: tuple
    pdig: tuple | None = None
    pulse: Any = field(default=None, compare=False, hash=False)

    def key(self) -> tuple:
        return (self.kind, self.ti, self.tf, self.targets, self.pdig)


@dataclass
class ChanSnap:
    name: str
    channel_id: str
    obj: Any
    is_dmm: bool
    slots: tuple
    eom_blocks: tuple  # (ti, tf|None, rabi, det_on, det_off)
    in_eom: bool
    dmm_weights: tuple | None = None
    waiting_first_pulse: bool = False

    @property
    def end(self) -> int:
        return self.slots[-1].tf if self.slots else 0

    def key(self) -> tuple:
        return (
            self.name,
            self.channel_id,
            tuple(s.key() for s in self.slots),
            self.eom_blocks,
            self.in_eom,
            self.dmm_weights,
            self.waiting_first_pulse,
        )

    def timeline_key(self) -> tuple:
        return (
            self.name,
            self.channel_id,
            tuple(s.key() for s in self.slots),
            self.eom_blocks,
        )

    def pulse_slots(self, real_only: bool = False) -> list[Slot]:
        return [
            s
            for s in self.slots
            if s.kind == "pulse" or (s.kind == "ddelay" and not real_only)
        ]

    def in_eom_at(self, t: int) -> bool:
        for ti, tf, *_ in self.eom_blocks:
            end = tf if tf is not None else self.end
            if ti <= t < end:
                return True
        return False


@dataclass
class Snap:
    channels: dict  # name -> ChanSnap, in declaration order
    phase: dict  # basis -> {qid: (times, phases, last_used)}
    flags: dict
    calls: tuple
    parametrized: bool

    def key(self) -> tuple:
        return (
            tuple(c.key() for c in self.channels.values()),
            self.phase_key(),
            tuple(sorted(self.flags.items(), key=lambda kv: kv[0])),
            self.calls,
        )

    def timeline_key(self) -> tuple:
        # declaration order is not part of the timeline
        return tuple(self.channels[n].timeline_key() for n in sorted(self.channels))

    def phase_key(self) -> tuple:
        out = []
        for basis in sorted(self.phase):
            refs = self.phase[basis]
            out.append(
                (basis, tuple((q, refs[q]) for q in sort_ids(refs)))
            )
        return tuple(out)

    def digest(self) -> str:
        return hashlib.blake2b(
            repr(self.key()).encode(), digest_size=8
        ).hexdigest()

    def phase_ref(self, basis: str, q) -> float:
        return self.phase[basis][q][1][-1]

    def phase_time(self, basis: str, q) -> int:
        return self.phase[basis][q][0][-1]


def _is_ddelay(p) -> bool:
    from pulser.waveforms import ConstantWaveform

    return bool(
        isinstance(p.amplitude, ConstantWaveform)
        and isinstance(p.detuning, ConstantWaveform)
        and float(_arr(p.amplitude.samples)[0]) == 0.0
    )


def canon(x) -> Any:
    """Canonical, hashable, hash-order independent rendering of a call arg."""
    from pulser.parametrized import Parametrized
    from pulser.pulse import Pulse
    from pulser.register.weight_maps import WeightMap
    from pulser.waveforms import Waveform

    if isinstance(x, Parametrized):
        return ("param", str(x))
    if isinstance(x, Pulse):
        return ("pulse",) + pulse_digest(x)
    if isinstance(x, Waveform):
        return ("wf", x.duration, arr_digest(x.samples))
    if isinstance(x, WeightMap):
        pairs = sorted(
            (tuple(round(float(c), 6) for c in np.atleast_1d(tc)), round(float(w), 12))
            for tc, w in zip(x.trap_coordinates, x.weights)
        )
        return ("wmap", tuple(pairs))
    if isinstance(x, (set, frozenset)):
        return ("set",) + tuple(sorted((canon(y) for y in x), key=repr))
    if isinstance(x, dict):
        return ("dict",) + tuple(
            sorted(((canon(k), canon(v)) for k, v in x.items()), key=repr)
        )
    if isinstance(x, (list, tuple)):
        return ("seq",) + tuple(canon(y) for y in x)
    if hasattr(x, "as_array"):
        x = x.as_array(detach=True)
    if isinstance(x, np.ndarray):
        return canon(x.tolist())
    if isinstance(x, (bool, np.bool_)):
        return bool(x)
    if isinstance(x, (int, np.integer)):
        return int(x)
    if isinstance(x, (float, np.floating)):
        f = float(x)
        return int(f) if f == int(f) and abs(f) < 2**53 and not math.isinf(f) else f
    if x is None or isinstance(x, str):
        return x
    return ("obj", type(x).__name__, repr(x)[:120])


def canon_call(call) -> tuple:
    from pulser import Sequence

    name = call.name
    sig = _SIG_CACHE.get(name)
    if sig is None:
        sig = inspect.signature(getattr(Sequence, name))
        _SIG_CACHE[name] = sig
    try:
        bound = sig.bind(None, *call.args, **call.kwargs)
    except TypeError:
        return (name, canon(call.args), canon(call.kwargs))
    items = []
    for pname, val in bound.arguments.items():
        if pname == "self":
            continue
        par = sig.parameters[pname]
        if par.default is not inspect.Parameter.empty:
            try:
                if val == par.default:
                    continue
            except Exception:  # noqa: BLE001
                pass
        items.append((pname, canon(val)))
    return (name, tuple(items))


def snapshot(seq) -> Snap:
    from pulser.channels.dmm import DMM
    from pulser.pulse import Pulse

    try:
        sched = seq._schedule
        basis_ref = seq._basis_ref
        calls = list(seq._calls[1:]) + list(seq._to_build_calls)
        building = seq._building
    except AttributeError as e:  # pragma: no cover
        raise HarnessError(f"observation adapter out of date: {e}")

    channels: dict[str, ChanSnap] = {}
    for name, cs in sched.items():
        slots = []
        for s in cs.slots:
            tg = sort_ids(s.targets)
            if isinstance(s.type, Pulse):
                kind = "ddelay" if _is_ddelay(s.type) else "pulse"
                slots.append(
                    Slot(kind, int(s.ti), int(s.tf), tg, pulse_digest(s.type), s.type)
                )
            else:
                slots.append(Slot(str(s.type), int(s.ti), int(s.tf), tg))
        blocks = tuple(
            (
                int(b.ti),
                None if b.tf is None else int(b.tf),
                float(b.rabi_freq),
                float(b.detuning_on),
                float(b.detuning_off),
            )
            for b in cs.eom_blocks
        )
        is_dmm = isinstance(cs.channel_obj, DMM)
        weights = None
        waiting = False
        if is_dmm:
            dm = cs.detuning_map
            weights = canon(dm)
            waiting = bool(getattr(cs, "_waiting_for_first_pulse", False))
        channels[name] = ChanSnap(
            name,
            cs.channel_id,
            cs.channel_obj,
            is_dmm,
            tuple(slots),
            blocks,
            bool(blocks) and blocks[-1][1] is None,
            weights,
            waiting,
        )

    phase = {}
    for basis, refs in basis_ref.items():
        phase[basis] = {
            q: (
                tuple(int(t) for t in r.phase._times),
                tuple(float(p) for p in r.phase._phases),
                int(r.last_used),
            )
            for q, r in refs.items()
        }

    flags = {
        "parametrized": not building,
        "measured": seq.is_measured(),
        "measure_basis": seq.get_measurement_basis() if seq.is_measured() else None,
        "in_xy": bool(seq._in_xy),
        "in_ising": bool(seq._in_ising),
        "slm_targets": sort_ids(seq._slm_mask_targets),
        "slm_dmm": seq._slm_mask_dmm,
        "mag_field": None
        if seq._mag_field is None
        else tuple(float(b) for b in seq._mag_field),
        "variables": tuple(sorted(seq._variables)),
        "declared": tuple(seq.declared_channels),
        "available": tuple(sorted(seq.available_channels)),
        "empty": bool(seq._empty_sequence),
    }
    return Snap(
        channels,
        phase,
        flags,
        tuple(canon_call(c) for c in calls),
        not building,
    )
