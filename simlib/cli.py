"""./check entry point."""
from __future__ import annotations

import argparse
import os
import sys

from . import env


def main(argv=None) -> int:
    ap = argparse.ArgumentParser(prog="check")
    ap.add_argument("target")
    ap.add_argument("--tier", default=os.environ.get("VERIF_TIER", "quick"), choices=["quick", "thorough"])
    ap.add_argument("--replay")
    ap.add_argument("--seed", type=int, default=int(os.environ.get("VERIF_SEED", "0")))
    ap.add_argument("--runs", type=int, default=None)
    ap.add_argument("--workers", type=int, default=None)
    ap.add_argument("--one", type=int, default=None, help="run a single run index verbosely")
    a = ap.parse_args(argv)
    try:
        env.assert_import_root()
    except env.HarnessError as e:
        print(f"HARNESS-ERROR: {e}")
        return env.EXIT_HARNESS
    env.quiet()
    if a.target == "setup":
        import hypothesis  # noqa: F401  (available, unused)
        import jsonschema  # noqa: F401
        import qutip  # noqa: F401

        print("setup ok: pulser from", env.REPO_ROOT)
        return 0
    from . import checks, runner

    if a.target.startswith("selftest"):
        from . import selftest

        return selftest.main(a.target, a)
    spec = checks.get(a.target)
    if spec is None:
        print(f"HARNESS-ERROR: unknown check {a.target}")
        return env.EXIT_HARNESS
    if a.replay:
        return runner.run_replay(spec, a.replay)
    if a.one is not None:
        d = spec.run_one(a.seed, a.one)
        import json

        for k, rec in enumerate(d.get("trace", [])):
            print(k, rec.get("actor"), json.dumps(rec["op"], default=str)[:230], "->", rec.get("outcome"), rec.get("tag", ""))
        print("violations:", d["violations"])
        print("stats:", {k: v for k, v in d["stats"].items() if k.startswith("probe/")})
        return 1 if d["violations"] else 0
    return runner.run_check(spec, a.tier, a.seed, a.workers, a.runs)


if __name__ == "__main__":
    sys.exit(main())
