"""TMPL-SIM: parametrized template worlds (C08, parametrized part of C04).

A template program is a list of building ops whose numeric positions may be
expression nodes over declared variables. The same program is (a) issued on a
Sequence with Variables (the template T) and (b) for any assignment v evaluated
with plain numpy arithmetic and issued directly (D(v)). World operations:
builds in seeded order, failing builds, printing/serialising in between,
sibling builds through switch_register/switch_device copies that share the
Variable objects, restarts of T through abstract repr / legacy JSON.
"""
from __future__ import annotations

import copy
import hashlib
import json
import math
import random
import re
import warnings
from collections import Counter
from typing import Any

import numpy as np

from . import env, gen as G, observe, ops, world as W
from .engine import RunResult, Violation, stream

FUNCS = {
    "sqrt": np.sqrt,
    "exp": np.exp,
    "log": np.log,
    "log2": np.log2,
    "sin": np.sin,
    "cos": np.cos,
    "tan": np.tan,
    "tanh": np.tanh,
    "abs": abs,
    "neg": lambda x: -x,
    "ceil": np.ceil,
    "floor": np.floor,
    "round": np.round,
}
BINOPS = {
    "+": lambda a, b: a + b,
    "-": lambda a, b: a - b,
    "*": lambda a, b: a * b,
    "/": lambda a, b: a / b,
    "//": lambda a, b: a // b,
    "%": lambda a, b: a % b,
    # numpy's power (x*x fast path for squares), which is what the library's
    # ParamObj evaluates; Python's float pow can differ from it by one ulp
    "**": lambda a, b: a**b if not isinstance(a, float) else (np.float64(a) ** b).item(),
}


def is_expr(x) -> bool:
    return isinstance(x, dict) and "e" in x


# ----------------------------------------------------------------- evaluation
def ev_value(node, vals: dict):
    """Plain evaluation of an expression node for the assignment `vals`."""
    if not is_expr(node):
        return node
    k = node["e"]
    if k == "var":
        v = vals[node["name"]]
        return np.asarray(v).reshape(-1)[0].item() if np.ndim(v) else v
    if k == "item":
        return np.asarray(vals[node["name"]]).reshape(-1)[node["i"]].item()
    if k == "arr":
        a = np.asarray(vals[node["name"]]).reshape(-1)
        if "sl" in node:
            a = a[slice(*node["sl"])]
        return [x.item() for x in a]
    if k == "bin":
        return BINOPS[node["op"]](ev_value(node["a"], vals), ev_value(node["b"], vals))
    if k == "fn":
        r = FUNCS[node["f"]](ev_value(node["a"], vals))
        return r.item() if hasattr(r, "item") else r
    raise ValueError(k)


def ev_param(node, pv: dict):
    """The same node as a pulser Parametrized object (pv: name -> Variable)."""
    if not is_expr(node):
        return node
    k = node["e"]
    if k == "var":
        return pv[node["name"]][0]
    if k == "item":
        return pv[node["name"]][node["i"]]
    if k == "arr":
        v = pv[node["name"]]
        if "sl" in node:
            return v[slice(*node["sl"])]
        return v
    if k == "bin":
        return BINOPS[node["op"]](ev_param(node["a"], pv), ev_param(node["b"], pv))
    if k == "fn":
        return FUNCS[node["f"]](ev_param(node["a"], pv))
    raise ValueError(k)


def subst(obj, vals: dict):
    """Deep copy of an op with every expression node evaluated."""
    if is_expr(obj):
        r = ev_value(obj, vals)
        return r
    if isinstance(obj, dict):
        return {k: subst(v, vals) for k, v in obj.items()}
    if isinstance(obj, list):
        return [subst(v, vals) for v in obj]
    return obj


def has_expr(obj) -> bool:
    if is_expr(obj):
        return True
    if isinstance(obj, dict):
        return any(has_expr(v) for v in obj.values())
    if isinstance(obj, list):
        return any(has_expr(v) for v in obj)
    return False


def _int_durations(op: dict) -> dict:
    """Durations evaluated from int variables must be ints for direct calls."""

    def fix(o, key=None):
        if isinstance(o, dict):
            return {k: fix(v, k) for k, v in o.items()}
        if isinstance(o, list):
            return [fix(v, key) for v in o]
        if key == "d" and isinstance(o, float) and o == int(o):
            return int(o)
        return o

    return fix(op)


# --------------------------------------------------------- parametrized issue
def build_wf_p(spec: dict, pv: dict):
    import pulser.waveforms as wf

    k = spec["w"]
    P = lambda x: ev_param(x, pv)  # noqa: E731
    if k == "const":
        return wf.ConstantWaveform(P(spec["d"]), P(spec["v"]))
    if k == "ramp":
        return wf.RampWaveform(P(spec["d"]), P(spec["a"]), P(spec["b"]))
    if k == "blackman":
        return wf.BlackmanWaveform(P(spec["d"]), P(spec["area"]))
    if k == "kaiser":
        return wf.KaiserWaveform(P(spec["d"]), P(spec["area"]), spec.get("beta", 14.0))
    if k == "interp":
        if "interp1d_kind" in spec:
            return wf.InterpolatedWaveform(P(spec["d"]), P(spec["values"]), interpolator="interp1d", kind=spec["interp1d_kind"])
        return wf.InterpolatedWaveform(P(spec["d"]), P(spec["values"]))
    if k == "custom":
        return wf.CustomWaveform(P(spec["samples"]))
    if k == "composite":
        return wf.CompositeWaveform(*[build_wf_p(p, pv) for p in spec["parts"]])
    raise ValueError(k)


def issue_param(seq, op: dict, pv: dict):
    """Issue one template op on the (parametrized) sequence."""
    from pulser import Pulse

    P = lambda x: ev_param(x, pv)  # noqa: E731
    k = op["op"]
    if k == "declare_channel":
        kw = {}
        if op.get("initial_target") is not None:
            kw["initial_target"] = op["initial_target"]
        return seq.declare_channel(op["name"], op["channel_id"], **kw)
    if k == "config_detuning_map":
        reg = seq.get_register(include_mappable=True)
        dm = reg.define_detuning_map(op["weights"], op["slug"]) if op.get("slug") else reg.define_detuning_map(op["weights"])
        return seq.config_detuning_map(dm, op["dmm_id"])
    if k == "target":
        return seq.target(op["qubits"], op["ch"])
    if k == "target_index":
        return seq.target_index(P(op["qubits"]), op["ch"])
    if k == "add":
        ps = op["pulse"]
        if ps.get("ctor") == "arbitrary_phase":
            import pulser.waveforms as wf

            pulse = Pulse.ArbitraryPhase(build_wf_p(ps["amp"], pv), wf.ConstantWaveform(P(ps["amp"]["d"]), P(ps["phase"])), post_phase_shift=P(ps.get("pps", 0.0)))
        else:
            pulse = Pulse(build_wf_p(ps["amp"], pv), build_wf_p(ps["det"], pv), P(ps["phase"]), P(ps.get("pps", 0.0)))
        if "protocol" in op:
            return seq.add(pulse, op["ch"], op["protocol"])
        return seq.add(pulse, op["ch"])
    if k == "add_dmm_detuning":
        w = build_wf_p(op["wf"], pv)
        if "protocol" in op:
            return seq.add_dmm_detuning(w, op["ch"], op["protocol"])
        return seq.add_dmm_detuning(w, op["ch"])
    if k == "delay":
        if "at_rest" in op:
            return seq.delay(P(op["d"]), op["ch"], at_rest=op["at_rest"])
        return seq.delay(P(op["d"]), op["ch"])
    if k == "align":
        if "at_rest" in op:
            return seq.align(*op["chs"], at_rest=op["at_rest"])
        return seq.align(*op["chs"])
    if k == "phase_shift":
        return seq.phase_shift(P(op["phi"]), *op["targets"], basis=op["basis"])
    if k == "phase_shift_index":
        return seq.phase_shift_index(P(op["phi"]), *[P(t) for t in op["targets"]], basis=op["basis"])
    if k in ("enable_eom_mode", "modify_eom_setpoint"):
        kw = {}
        if "opt_off" in op:
            kw["optimal_detuning_off"] = P(op["opt_off"])
        if "cpd" in op:
            kw["correct_phase_drift"] = op["cpd"]
        return getattr(seq, k)(op["ch"], P(op["amp_on"]), P(op["det_on"]), **kw)
    if k == "add_eom_pulse":
        kw = {}
        if "pps" in op:
            kw["post_phase_shift"] = P(op["pps"])
        if "protocol" in op:
            kw["protocol"] = op["protocol"]
        if "cpd" in op:
            kw["correct_phase_drift"] = op["cpd"]
        return seq.add_eom_pulse(op["ch"], P(op["d"]), P(op["phase"]), **kw)
    if k == "disable_eom_mode":
        kw = {"correct_phase_drift": op["cpd"]} if "cpd" in op else {}
        return seq.disable_eom_mode(op["ch"], **kw)
    if k == "measure":
        return seq.measure(op["basis"])
    if k == "set_magnetic_field":
        return seq.set_magnetic_field(*op["b"])
    if k == "config_slm_mask":
        if "dmm_id" in op:
            return seq.config_slm_mask(op["qubits"], op["dmm_id"])
        return seq.config_slm_mask(op["qubits"])
    raise env.HarnessError(f"template op {k} is not handled by issue_param")


# ------------------------------------------------------------------ the world
class TemplateWorld:
    def __init__(self, spec: dict):
        from pulser import Sequence
        from pulser.register.mappable_reg import MappableRegister
        from pulser.register.register_layout import RegisterLayout

        self.spec = spec
        self.device = W.build_device(spec["device"])
        rs = spec["register"]
        self.mappable = rs.get("mappable", False)
        if self.mappable:
            self.layout = RegisterLayout(rs["traps"])
            self.register = MappableRegister(self.layout, *rs["ids"])
        else:
            self.register = W.build_register(rs)
        self.T = Sequence(self.register, self.device)
        self.pv: dict = {}
        for vd in spec["variables"]:
            kw = {"dtype": int if vd["int"] else float}
            if vd["size"] > 1 or vd.get("array"):
                kw["size"] = vd["size"]
                v = self.T.declare_variable(vd["name"], **kw)
            else:
                v = self.T.declare_variable(vd["name"], **kw).var
            self.pv[vd["name"]] = v
        self.issue_errors: list = []
        for op in spec["program"]:
            with warnings.catch_warnings():
                warnings.simplefilter("ignore")
                try:
                    issue_param(self.T, op, self.pv)
                    self.issue_errors.append(None)
                except Exception as e:  # noqa: BLE001
                    self.issue_errors.append(type(e).__name__)

    # --------------------------------------------------------- direct twin
    def direct_register(self, qubits: dict | None):
        from pulser import Register, Register3D

        if not self.mappable:
            return W.build_register(self.spec["register"])
        traps = np.asarray(self.layout.coords)
        ids = [q for q in self.spec["register"]["ids"] if q in qubits]
        coords = {q: tuple(float(x) for x in traps[qubits[q]]) for q in ids}
        dim = traps.shape[1]
        return (Register3D if dim == 3 else Register)(coords)

    def direct(self, vals: dict, qubits: dict | None, accepted_mask: list):
        """D(v): same calls with evaluated values on a fresh sequence."""
        sut = ops.SUT.__new__(ops.SUT)
        from pulser import Sequence

        sut.world = sut.world0 = self.spec
        sut.log = []
        sut.call_style = None
        sut.device = self.device
        sut.register = self.direct_register(qubits)
        try:
            sut.seq = Sequence(sut.register, self.device)
        except Exception as e:  # noqa: BLE001 - the device refuses this register
            return None, ("Sequence", type(e).__name__)
        sut.vars = {}
        sut.restarts = 0
        first_err = None
        for op, ok in zip(self.spec["program"], accepted_mask):
            if not ok:
                continue  # the template refused this call when it was issued
            try:
                cop = _int_durations(subst(op, vals))
            except Exception as e:  # noqa: BLE001 - arithmetic failure = refusal
                first_err = ("eval", type(e).__name__)
                break
            out = ops.issue(sut, cop)
            if not out.ok:
                first_err = (op["op"], out.exc_type)
                break
        return sut.seq, first_err


def fingerprint(seq) -> tuple:
    snap = observe.snapshot(seq)
    try:
        with warnings.catch_warnings():
            warnings.simplefilter("ignore")
            s = str(seq)
    except Exception as e:  # noqa: BLE001
        s = "str-raised:" + type(e).__name__
    try:
        ar = seq.to_abstract_repr(skip_validation=True)
        # target lists are written in set order: compare parsed and canonicalised
        ar = json.dumps(_canon_json(json.loads(ar)), sort_keys=True)
    except Exception as e:  # noqa: BLE001
        ar = "abstract-raised:" + type(e).__name__
    vals = tuple((n, v._count if False else None) for n, v in sorted(seq.declared_variables.items()))
    # the qubit ids the template knows (a partial mapping at build time concerns the
    # built sequence only)
    known = tuple(sorted(str(q) for q in getattr(seq, "_qids", ())))
    return (snap.calls, snap.flags["parametrized"], snap.flags["declared"], s, hashlib.sha256(ar.encode()).hexdigest(), vals, known)


def _canon_json(o):
    if isinstance(o, dict):
        return {k: _canon_json(v) for k, v in o.items()}
    if isinstance(o, list):
        c = [_canon_json(v) for v in o]
        return c
    return o


def seq_key(seq) -> tuple:
    snap = observe.snapshot(seq)
    reg = seq.register
    rk = tuple((q, tuple(round(float(x), 9) for x in np.atleast_1d(observe._arr(c)))) for q, c in reg.qubits.items())
    fl = tuple((k, snap.flags[k]) for k in ("measured", "measure_basis", "in_xy", "in_ising", "slm_targets", "mag_field", "parametrized"))
    # phase references of the atoms of the register: a sequence built with a
    # partial mapping keeps (unused) entries for the qubits that were left out
    present = set(reg.qubits)
    pk = tuple((b, tuple((q, v) for q, v in refs if q in present)) for b, refs in snap.phase_key())
    return SeqView(snap, pk, fl, rk)


def timelines_close(sa, sb) -> bool:
    """Channels matched by NAME (declaration order is not part of the timeline)."""
    if set(sa.channels) != set(sb.channels):
        return False
    for n, a in sa.channels.items():
        b = sb.channels[n]
        if a.channel_id != b.channel_id or len(a.slots) != len(b.slots) or len(a.eom_blocks) != len(b.eom_blocks):
            return False
        for x, y in zip(a.slots, b.slots):
            if (x.kind, x.ti, x.tf, x.targets) != (y.kind, y.ti, y.tf, y.targets):
                return False
            if x.pulse is not None and x.pdig != y.pdig:
                ax, ay = observe._arr(x.pulse.amplitude.samples), observe._arr(y.pulse.amplitude.samples)
                dx, dy = observe._arr(x.pulse.detuning.samples), observe._arr(y.pulse.detuning.samples)
                if ax.shape != ay.shape or dx.shape != dy.shape:
                    return False
                if not (np.allclose(ax, ay, rtol=1e-9, atol=1e-12) and np.allclose(dx, dy, rtol=1e-9, atol=1e-12)):
                    return False
                if not keys_close((float(x.pulse.phase), float(x.pulse.post_phase_shift)), (float(y.pulse.phase), float(y.pulse.post_phase_shift))):
                    return False
        if not keys_close(a.eom_blocks, b.eom_blocks):
            return False
        if a.dmm_weights != b.dmm_weights:
            return False
    return True


def switched_close(ka, kb) -> bool:
    """C18's comparison of a switched sequence with the original: channels other
    than DMMs keep their names; a DMM may have been re-matched to another DMM of
    the new device (other name and id), so DMM channels are paired by content.
    Declaration order is not compared (a template declares its channels in the
    order the calls are replayed at build time)."""
    from types import SimpleNamespace as NS

    from .oracles import c18

    if not (keys_close(ka.pk, kb.pk) and ka.fl == kb.fl and ka.rk == kb.rk):
        return False
    a, b = ka.snap.channels, kb.snap.channels
    na = {n for n, c in a.items() if not c.is_dmm}
    if na != {n for n, c in b.items() if not c.is_dmm}:
        return False
    one = lambda c: c18.tl(NS(channels={"x": c}))  # noqa: E731
    for n in na:
        if one(a[n]) != one(b[n]):
            return False
    left = [c for c in b.values() if c.is_dmm]
    for c in (c for c in a.values() if c.is_dmm):
        m = next((d for d in left if d.dmm_weights == c.dmm_weights and one(c) == one(d)), None)
        if m is None:
            return False
        left.remove(m)
    return not left


class SeqView:
    """What two 'same' sequences must agree on. Compared by keys_close():
    instruction kinds, times and targets exactly; pulse samples to 1e-9 relative
    (the model evaluates expressions with Python/numpy scalars, the library on
    zero-dimensional arrays: `a**2` can differ by one ulp between them); phases
    and phase references to 1e-9 modulo 2 pi; flags and register exactly."""

    def __init__(self, snap, pk, fl, rk):
        self.snap, self.pk, self.fl, self.rk = snap, pk, fl, rk


_TWO_PI = 2 * math.pi


def keys_close(a, b) -> bool:
    """Equality of two seq_key()s up to floating-point noise in the stored
    floats (1e-9), phases taken modulo 2 pi: a serialisation round trip rebuilds
    Pulse(phase=p) from a stored p that may be exactly 2 pi (the float result of
    `-1e-17 % 2 pi`), which the constructor then reduces to 0.0."""
    if isinstance(a, SeqView) or isinstance(b, SeqView):
        if not (isinstance(a, SeqView) and isinstance(b, SeqView)):
            return False
        return a.fl == b.fl and a.rk == b.rk and keys_close(a.pk, b.pk) and timelines_close(a.snap, b.snap)
    if isinstance(a, tuple) and isinstance(b, tuple):
        return len(a) == len(b) and all(keys_close(x, y) for x, y in zip(a, b))
    if isinstance(a, float) and isinstance(b, float):
        d = abs(a - b)
        return d <= 1e-9 * max(1.0, abs(a)) or abs(d - _TWO_PI) <= 1e-9 or (a != a and b != b)
    return a == b


def key_diff(a, b) -> str:
    if isinstance(a, SeqView) and isinstance(b, SeqView):
        from .oracles.c09 import _diff

        if not timelines_close(a.snap, b.snap):
            return "timeline: " + _diff(a.snap, b.snap)
        if not keys_close(a.pk, b.pk):
            return "phase references differ"
        if a.fl != b.fl:
            return f"flags {a.fl} vs {b.fl}"
        return f"register {a.rk} vs {b.rk}"
    names = ("timeline", "phase references", "flags", "register")
    for n, x, y in zip(names, a, b):
        if x != y:
            if n == "timeline":
                for cx, cy in zip(x, y):
                    if cx != cy:
                        sx, sy = cx[2], cy[2]
                        for i, (p, q) in enumerate(zip(sx, sy)):
                            if p != q:
                                return f"timeline of {cx[0]} slot {i}: {p[:4]} vs {q[:4]}"
                        return f"timeline of {cx[0]}: {len(sx)} vs {len(sy)} slots or EOM blocks differ"
                return f"timeline: {len(x)} vs {len(y)} channels"
            if n == "register":
                return f"register {x} vs {y}"
            return n + " differ"
    return "equal"


# ------------------------------------------------------------------ generation
def _lift_float(rng: random.Random, x: float, v0: dict, names: dict):
    """An expression node that evaluates (under v0) to about x."""
    a0 = float(np.asarray(v0["a"]).reshape(-1)[0]) if "a" in names else None
    arr0 = [float(t) for t in np.asarray(v0["arr"]).reshape(-1)] if "arr" in names else None
    forms = []
    if a0:
        forms += ["mul", "add", "rsub", "nest", "sqrt", "cos", "pow", "div", "neg", "tanh", "exp", "mod"]
        forms += ["round", "floor", "ceil", "abs", "log", "log2", "sin", "tan"]
    if arr0:
        forms += ["item", "item_add"]
    if not forms:
        return x
    f = G.pick(rng, forms)
    A = {"e": "var", "name": "a"}
    if f == "mul":
        return {"e": "bin", "op": "*", "a": A, "b": x / a0}
    if f == "add":
        return {"e": "bin", "op": "+", "a": A, "b": x - a0}
    if f == "rsub":
        return {"e": "bin", "op": "-", "a": x + a0, "b": A}
    if f == "nest":
        return {"e": "bin", "op": "*", "a": {"e": "bin", "op": "+", "a": A, "b": 1.0}, "b": x / (a0 + 1.0)}
    if f == "sqrt":
        return {"e": "bin", "op": "*", "a": {"e": "fn", "f": "sqrt", "a": A}, "b": x / math.sqrt(a0)}
    if f == "cos":
        return {"e": "bin", "op": "+", "a": {"e": "fn", "f": "cos", "a": A}, "b": x - math.cos(a0)}
    if f == "tanh":
        return {"e": "bin", "op": "+", "a": {"e": "fn", "f": "tanh", "a": A}, "b": x - math.tanh(a0)}
    if f in ("round", "floor", "ceil"):
        # round(10 a) etc.: the offset keeps the value at x under v0
        inner = {"e": "bin", "op": "*", "a": A, "b": 10.0}
        return {"e": "bin", "op": "+", "a": {"e": "fn", "f": f, "a": inner}, "b": x - float(FUNCS[f](a0 * 10.0))}
    if f in ("abs", "log", "log2", "sin", "tan"):
        return {"e": "bin", "op": "+", "a": {"e": "fn", "f": f, "a": A}, "b": x - float(FUNCS[f](a0))}
    if f == "exp":
        return {"e": "bin", "op": "*", "a": {"e": "fn", "f": "exp", "a": {"e": "fn", "f": "neg", "a": A}}, "b": x / math.exp(-a0)}
    if f == "pow":
        return {"e": "bin", "op": "*", "a": {"e": "bin", "op": "**", "a": A, "b": 2}, "b": x / a0**2}
    if f == "div":
        return {"e": "bin", "op": "/", "a": A, "b": (a0 / x) if x else 1.0} if x else x
    if f == "neg":
        return {"e": "fn", "f": "neg", "a": {"e": "bin", "op": "*", "a": A, "b": -x / a0}}
    if f == "mod":
        return {"e": "bin", "op": "+", "a": {"e": "bin", "op": "%", "a": A, "b": 0.75}, "b": x - (a0 % 0.75)}
    i = rng.randrange(len(arr0))
    if f == "item" and arr0[i]:
        return {"e": "bin", "op": "*", "a": {"e": "item", "name": "arr", "i": i}, "b": x / arr0[i]}
    return {"e": "bin", "op": "+", "a": {"e": "item", "name": "arr", "i": i}, "b": x - arr0[i]}


def _lift_int(rng: random.Random, d: int, v0: dict, names: dict):
    if "a" in names and rng.random() < 0.2:
        # an integer position fed by FLOAT arithmetic: a * (d / a0) evaluates to d
        # up to one ulp, i.e. sometimes to d - 1e-14 (truncated to d - 1 by int())
        a0 = float(np.asarray(v0["a"]).reshape(-1)[0])
        if a0:
            return {"e": "bin", "op": "*", "a": {"e": "var", "name": "a"}, "b": d / a0}
    if "n" not in names:
        return d
    n0 = int(np.asarray(v0["n"]).reshape(-1)[0])
    N = {"e": "var", "name": "n"}
    f = G.pick(rng, ["add", "plain" if d == n0 else "add", "mul" if n0 and d % n0 == 0 else "add", "floordiv"])
    if f == "plain":
        return N
    if f == "mul":
        return {"e": "bin", "op": "*", "a": N, "b": d // n0}
    if f == "floordiv":
        return {"e": "bin", "op": "+", "a": {"e": "bin", "op": "//", "a": N, "b": 2}, "b": d - n0 // 2}
    return {"e": "bin", "op": "+", "a": N, "b": d - n0}


def lift_program(rng: random.Random, prog: list, v0: dict, names: dict, p: float, qids: list) -> list:
    out = []
    L = lambda x: _lift_float(rng, float(x), v0, names) if rng.random() < p and isinstance(x, (int, float)) and math.isfinite(x) else x  # noqa: E731
    D = lambda d: _lift_int(rng, int(d), v0, names) if rng.random() < p and isinstance(d, int) else d  # noqa: E731

    def lift_wf(w):
        w = dict(w)
        k = w["w"]
        if k in ("const", "ramp", "blackman", "kaiser", "interp"):
            dd = D(w["d"])
            w["d"] = dd
        if k == "const":
            w["v"] = L(w["v"])
        elif k == "ramp":
            w["a"], w["b"] = L(w["a"]), L(w["b"])
        elif k in ("blackman", "kaiser"):
            w["area"] = L(w["area"])
        elif k == "custom" and "cw" in names and list(w["samples"]) == list(v0["cw"]):
            w["samples"] = {"e": "arr", "name": "cw"}
        elif k == "interp" and "arr" in names and rng.random() < p and len(w["values"]) >= 1:
            w["values"] = {"e": "arr", "name": "arr"} if rng.random() < 0.6 else {"e": "arr", "name": "arr", "sl": G.pick(rng, [[0, 2], [0, 2], [1, 3], [None, None, -1], [None, None, 2], [2, None, -1], [-2, None]])}
        return w

    def same_duration(amp, det):
        # both waveforms must keep equal durations under every assignment
        if has_expr(amp.get("d")) or has_expr(det.get("d")):
            if "d" in amp and "d" in det:
                det["d"] = amp["d"]
            else:
                for w in (amp, det):
                    if "d" in w and has_expr(w["d"]):
                        w["d"] = ev_value(w["d"], v0)
        return amp, det

    for op in prog:
        op = copy.deepcopy(op)
        k = op["op"]
        if k == "add":
            ps = op["pulse"]
            a, d = same_duration(lift_wf(ps["amp"]), lift_wf(ps["det"]))
            ps["amp"], ps["det"] = a, d
            ps["phase"] = L(ps["phase"])
            if "pps" in ps:
                ps["pps"] = L(ps["pps"])
        elif k == "add_dmm_detuning":
            op["wf"] = lift_wf(op["wf"])
        elif k == "delay" and op["d"]:
            op["d"] = D(op["d"])
        elif k in ("phase_shift", "phase_shift_index"):
            op["phi"] = L(op["phi"])
        elif k in ("enable_eom_mode", "modify_eom_setpoint"):
            op["amp_on"] = L(op["amp_on"])
            op["det_on"] = L(op["det_on"])
            if "opt_off" in op:
                op["opt_off"] = L(op["opt_off"])
        elif k == "add_eom_pulse":
            op["d"] = D(op["d"])
            op["phase"] = L(op["phase"])
            if "pps" in op:
                op["pps"] = L(op["pps"])
        elif k == "target_index" and "ks" in names and isinstance(op["qubits"], int) and op["qubits"] == int(v0["ks"][0]) and rng.random() < 0.8:
            # a SLICE of an integer array variable as the target indices
            op["qubits"] = {"e": "arr", "name": "ks", "sl": G.pick(rng, [[0, 1], [None, 2], [1, None]])}
        elif k == "target_index" and "k" in names and isinstance(op["qubits"], int) and rng.random() < p:
            op["qubits"] = {"e": "bin", "op": "+", "a": {"e": "var", "name": "k"}, "b": op["qubits"] - int(v0["k"])}
        out.append(op)
    return out


def gen_template_world(seed: int, prop: str, run: int, profile: dict) -> dict:
    """World spec: device, register, variables, assignments, template program."""
    from . import actors as A
    from . import engine

    wr = stream(seed, prop, run, "world")
    pr = stream(seed, prop, run, "programs")
    mappable = wr.random() < profile.get("mappable_p", 0.3)
    if mappable:
        dev = {"kind": "builtin", "name": "MockDevice"} if wr.random() < 0.5 else W.gen_device(wr, mode="virtual", xy_p=0.0)
        if dev["kind"] != "builtin":
            dev["supports_slm_mask"] = bool(dev.get("dmm"))
    else:
        dev = W.gen_device(wr, xy_p=0.1)
    reg = W.gen_register(wr, n_min=2, n_max=4, dim3_p=0.0)
    if dev["kind"] == "builtin":
        reg["dim"] = 2
    world = {"device": dev, "register": reg}
    # 1. a concrete, mostly valid program from the SEQ-SIM actors
    prof = A.make_profile(
        w_fault=0.0,
        w_observer=0.0,
        slm_p=0.0 if mappable else 0.15,
        measure_p=0.2,
        max_steps=profile.get("prog_len", 14),
        ops_per_channel=(2, 6),
        chan_ops={"add": 10, "delay": 3, "target": 3, "phase_shift": 2, "align": 1.5, "enable_eom": 2},
        dmm_twice_p=profile.get("dmm_twice_p", 0.0),
    )
    ctx = engine.Ctx(world, prof, [])
    st = engine.Stepper(ctx)
    setup = A.SetupActor(pr, world, ctx.sut.device, ctx.sut.register, prof)
    if mappable:
        setup.queue = [o for o in setup.queue if o["op"] == "declare_channel"]
        setup.slm_op = None
    lo, hi = prof["ops_per_channel"]
    actors = [A.ChannelActor(n, pr.randint(lo, hi)) for n in dict.fromkeys(setup.chan_names)]
    late = A.LateActor(pr, setup, prof, ctx.sut.device)
    if profile.get("late_dmm_p") and not mappable and pr.random() < profile["late_dmm_p"]:
        # detuning maps configured after the first pulses (in a template: after
        # the first use of a variable)
        late.pending = [o for o in setup.queue if o["op"] == "config_detuning_map"] + late.pending
        setup.queue = [o for o in setup.queue if o["op"] != "config_detuning_map"]
    il = stream(seed, prop, run, "interleave")
    prog: list = []
    while ctx.step_no < prof["max_steps"]:
        snap = st.cur
        cands = ([(setup, 6.0)] if setup.runnable(snap) else []) + [(a, 1.0) for a in actors if a.runnable(snap)]
        if late.runnable(snap) and snap.channels and not setup.runnable(snap):
            cands.append((late, 0.2))
        if not cands:
            break
        tot = sum(w for _, w in cands)
        r = il.random() * tot
        acc = 0.0
        ch = cands[-1][0]
        for a, w in cands:
            acc += w
            if r < acc:
                ch = a
                break
        op = ch.next_op(pr, snap, ctx)
        if op is None:
            continue
        if op["op"] in ("config_detuning_map", "config_slm_mask") and mappable:
            continue
        out = st.step(getattr(ch, "name", "?"), op)
        if out.ok:
            prog.append(op)
    # 2. variables and assignments
    vr = stream(seed, prop, run, "values")
    names = {}
    variables = []
    for name, is_int, size, p_decl in (("a", False, 1, 0.9), ("n", True, 1, 0.8), ("arr", False, 3, 0.6), ("k", True, 1, 0.5)):
        if vr.random() < p_decl:
            names[name] = True
            variables.append({"name": name, "int": is_int, "size": size, "array": size > 1})
    customs = [o["pulse"]["amp"]["samples"] for o in prog if o["op"] == "add" and o["pulse"]["amp"].get("w") == "custom" and len(o["pulse"]["amp"]["samples"]) <= 80]
    if customs and vr.random() < 0.7:
        # the whole sample array of a CustomWaveform is a variable (the built
        # waveform may hold on to the array the variable stores)
        names["cw"] = True
        variables.append({"name": "cw", "int": False, "size": len(customs[0]), "array": True})
    tidx = [o["qubits"] for o in prog if o["op"] == "target_index" and isinstance(o.get("qubits"), int)]
    if tidx and vr.random() < 0.6:
        names["ks"] = True
        variables.append({"name": "ks", "int": True, "size": 2, "array": True})
    lcm = 8
    a0 = round(vr.uniform(0.6, 2.5), 3)
    n0 = G.pick(vr, [48, 96, 104, 200])
    arr0 = [round(vr.uniform(0.5, 3.0), 3) for _ in range(3)]
    nq = len(reg["ids"])
    base = {"a": a0, "n": n0, "arr": arr0, "k": vr.randrange(nq), "ks": [tidx[0], tidx[0]] if tidx else [0, 0], "cw": list(customs[0]) if customs else [0.0]}
    v0 = {k: v for k, v in base.items() if k in names}
    assigns = [v0]
    for _ in range(vr.randint(1, 3)):
        alt = {}
        if "a" in names:
            alt["a"] = G.pick(vr, [a0, round(a0 * 0.8, 3), round(a0 * 0.97, 3), a0 * (1 + 1e-9), a0 + 1e-6, round(a0 * 1.1, 3)])
        if "n" in names:
            alt["n"] = G.pick(vr, [n0, n0 + lcm, n0 + 4 * lcm, n0 + 1, max(8, n0 - 2 * lcm)])
        if "arr" in names:
            alt["arr"] = [round(x * G.pick(vr, [1.0, 0.9, 0.5]), 3) for x in arr0]
        if "k" in names:
            alt["k"] = G.pick(vr, [base["k"], (base["k"] + 1) % nq])
        if "ks" in names:
            q2 = G.pick(vr, [base["ks"][0], (base["ks"][0] + 1) % nq])
            alt["ks"] = [q2, q2]
        if "cw" in names:
            f = G.pick(vr, [1.0, 0.9, 0.5])
            alt["cw"] = [round(x * f, 6) for x in base["cw"]]
        assigns.append(alt)
    # 3. lift numeric positions into expressions
    lp = profile.get("lift_p", 0.45)
    program = lift_program(vr, prog, v0, names, lp, reg["ids"]) if names else prog
    world["variables"] = variables
    world["assignments"] = assigns
    world["program"] = program
    if mappable:
        # a layout with more traps than qubits; the mapping chooses traps
        traps = [[x * 6.0 - 9.0, y * 6.0 - 9.0] for x in range(4) for y in range(3)]
        vr.shuffle(traps)
        reg2 = {"mappable": True, "traps": traps[: vr.randint(2 * nq, 12)], "ids": reg["ids"], "dim": 2}
        world["register"] = reg2
        maps = []
        from pulser.register.register_layout import RegisterLayout

        nt = len(reg2["traps"])
        for _ in range(2):
            chosen = vr.sample(range(nt), nq)
            maps.append({q: t for q, t in zip(reg["ids"], chosen)})
        # a partial mapping (the first k declared ids) is legal when the other
        # qubits are never named by the program
        def _named(o):
            out = []
            for key in ("initial_target", "qubits", "targets"):
                val = o.get(key)
                if val is None:
                    continue
                out += list(val) if isinstance(val, (list, tuple)) else [val]
            return out

        named = [x for o in program for x in _named(o)]
        by_index = any(o["op"] in ("target_index", "phase_shift_index") for o in program)
        if not by_index and all(isinstance(x, str) and x in reg["ids"] for x in named):
            k_min = max([reg["ids"].index(x) + 1 for x in named] or [1])
            if k_min < nq and vr.random() < 0.6:
                k = vr.randint(k_min, nq - 1)
                chosen = vr.sample(range(nt), k)
                maps.append({q: t for q, t in zip(reg["ids"][:k], chosen)})
        world["mappings"] = maps
        if dev["kind"] != "builtin" and nq >= 2 and vr.random() < profile.get("tight_atom_num_p", 0.0):
            # the device accepts fewer atoms than the mappable register has ids: only
            # a partial mapping can be built, as with a concrete register
            dev["max_atom_num"] = nq - 1
    return world


# -------------------------------------------------------------------- running
def gen_history(rng: random.Random, world: dict, profile: dict) -> list:
    na = len(world["assignments"])
    nm = len(world.get("mappings", [])) or 1
    n = rng.randint(5, profile.get("hist_len", 10))
    kinds = profile.get("hist_kinds", {"build": 8, "pair": 2, "bad": 2, "str": 1, "abstract": 1, "sibling": 2, "restart": 1, "cache": 0.5})
    hist = [{"op": "t_build", "i": 0, "m": 0}]
    for _ in range(n):
        k = G.wpick(rng, kinds)
        if k == "build":
            hist.append({"op": "t_build", "i": rng.randrange(na), "m": rng.randrange(nm)})
        elif k == "pair":
            hist.append({"op": "t_build_pair", "i": rng.randrange(na), "j": rng.randrange(na), "m": rng.randrange(nm)})
        elif k == "bad":
            hist.append({"op": "t_build_bad", "kind": G.pick(rng, ["missing", "size", "invalid-n", "invalid-a", "extra"]), "i": rng.randrange(na), "m": rng.randrange(nm)})
        elif k == "str":
            hist.append({"op": "t_str"})
        elif k == "abstract":
            hist.append({"op": "t_abstract"})
        elif k == "sibling":
            hist.append({"op": "t_sibling", "kind": G.pick(rng, profile.get("sibling_kinds", ["switch_register", "switch_device"])), "i": rng.randrange(na), "m": rng.randrange(nm)})
            if profile.get("sibling_label") and rng.random() < 0.5:
                hist[-1]["rename"] = True
            if profile.get("sibling_extend_p") and rng.random() < profile["sibling_extend_p"]:
                hist[-1]["extend"] = True
        elif k == "restart":
            hist.append({"op": "t_restart", "kind": G.pick(rng, ["abstract", "abstract", "legacy"])})
        elif k == "built_restart":
            hist.append({"op": "t_built_restart", "kind": G.pick(rng, ["abstract", "abstract", "legacy"]), "i": rng.randrange(na), "m": rng.randrange(nm)})
        else:
            hist.append({"op": "cache_clear"})
    return hist


class TemplateRun:
    def __init__(self, world: dict, profile: dict):
        self.world = world
        self.profile = profile
        self.tw = TemplateWorld(world)
        self.mask = [e is None for e in self.tw.issue_errors]
        self.stats: Counter = Counter()
        self.violations: list = []
        self.trace: list = []
        self.fp = fingerprint(self.tw.T)
        self.results: dict = {}
        self.h = hashlib.blake2b(digest_size=12)
        self.n_validated = 0
        self.stats["program_ops"] += len(world["program"])
        self.stats["program_ops_with_expr"] += sum(1 for o in world["program"] if has_expr(o))
        self.stats["program_ops_refused_at_issue"] += sum(1 for m in self.mask if not m)

    def viol(self, oid, step, msg):
        self.violations.append(Violation(oid, step, msg))

    def _vals(self, i):
        return dict(self.world["assignments"][i])

    def _qubits(self, m):
        if not self.tw.mappable:
            return None
        return dict(self.world["mappings"][m])

    def _build(self, seq, vals, qubits):
        kw = dict(vals)
        if qubits is not None:
            kw["qubits"] = qubits
        with warnings.catch_warnings():
            warnings.simplefilter("ignore")
            try:
                return seq.build(**kw), None
            except Exception as e:  # noqa: BLE001
                return None, type(e).__name__

    def compare_build(self, step, seq, vals, qubits, label, who="build"):
        B, b_err = self._build(seq, vals, qubits)
        D, d_err = self.tw.direct(vals, qubits, self.mask)
        self.stats[f"{who}/{'raised' if b_err else 'ok'}/direct-{'raised' if d_err else 'ok'}"] += 1
        if label == "C18" and bool(b_err) != bool(d_err):
            # a template has no timeline until it is built: which channel of the new
            # device a channel is matched to (and hence whose limits apply at build
            # time) is not decided by the statement; counted, not judged
            self.stats[f"switched_template_build/{'refused' if b_err else 'accepted'}_unlike_direct"] += 1
        elif b_err and not d_err:
            self.viol(f"{label}/build-refused", step, f"{who}({vals}) raised {b_err} but the same calls issued directly are all accepted")
        elif d_err and not b_err:
            self.viol(f"{label}/build-accepted-invalid", step, f"{who}({vals}) returned a sequence but issuing the same calls directly raises at {d_err}")
        elif not b_err:
            kb, kd = seq_key(B), seq_key(D)
            # sequences handed out by EARLIER builds are the caller's: a new build
            # must not change them
            if getattr(self, "kept", None):
                observe.reset_run_caches()  # digests are cached per pulse OBJECT: look at the samples again
            for (B0, k0, v0_) in getattr(self, "kept", []):
                if not keys_close(seq_key(B0), k0):
                    self.viol(f"{label}/earlier-build-changed", step, f"the sequence returned by build({v0_}) changed when the template was built again with {vals}")
                    self.kept = []
                    break
            else:
                self.stats["probe/earlier_builds_rechecked"] += len(getattr(self, "kept", []))
            self.kept = (getattr(self, "kept", []) + [(B, kb, vals)])[-2:]
            if label == "C18":
                # a switch may re-match a DMM to another DMM of the new device (other
                # name and id): channels are compared in declaration order, as C18 does
                same = switched_close(kb, kd)
            else:
                same = keys_close(kb, kd)
            if not same:
                self.viol(f"{label}/build-differs", step, f"{who}({vals}{', qubits=%s' % qubits if qubits else ''}) differs from direct construction: {key_diff(kb, kd)}")
            return kb
        return ("raised",)

    def check_template_unchanged(self, step, after):
        fp = fingerprint(self.tw.T)
        if fp != self.fp:
            what = [n for n, a, b in zip(("call log", "parametrized flag", "declared channels", "str()", "abstract repr", "variables", "known qubit ids"), fp, self.fp) if a != b]
            self.viol("C08/template-changed", step, f"the template changed during {after}: {', '.join(what)}")
            self.fp = fp

    def step(self, i, op):
        k = op["op"]
        T = self.tw.T
        rec = {"op": op}
        self.trace.append(rec)
        self.stats[f"op/{k}"] += 1
        if k == "t_build":
            vals, qubits = self._vals(op["i"]), self._qubits(op["m"])
            key = self.compare_build(i, T, vals, qubits, "C08")
            rk = (json.dumps(vals, sort_keys=True), json.dumps(qubits, sort_keys=True))
            if rk in self.results and not keys_close(self.results[rk], key):
                self.viol("C08/not-reproducible", i, f"two builds with the same values {vals} gave different sequences")
            elif rk in self.results:
                self.stats["probe/repeated_build"] += 1
            self.results[rk] = key
            self.check_template_unchanged(i, "build")
        elif k == "t_build_pair":
            # two builds back to back; the FIRST result is only looked at after the
            # second build (anything it still shares with the template would have
            # been overwritten by then)
            v1, v2, qubits = self._vals(op["i"]), self._vals(op["j"]), self._qubits(op["m"])
            B1, e1 = self._build(T, v1, qubits)
            B2, e2 = self._build(T, v2, qubits)
            if e1 is None:
                D1, d1 = self.tw.direct(v1, qubits, self.mask)
                self.stats["probe/build_pair"] += 1
                if d1 is None and not keys_close(seq_key(B1), seq_key(D1)):
                    self.viol("C08/earlier-build-changed", i, f"build({v1}) followed by build({v2}): the first sequence no longer equals its direct construction: {key_diff(seq_key(B1), seq_key(D1))}")
            self.check_template_unchanged(i, "two successive builds")
        elif k == "t_build_bad":
            vals, qubits = self._vals(op["i"]), self._qubits(op["m"])
            kind = op["kind"]
            names = [v["name"] for v in self.world["variables"]]
            if kind == "missing" and names:
                vals.pop(names[0], None)
            elif kind == "size" and "arr" in vals:
                vals["arr"] = vals["arr"][:2]
            elif kind == "invalid-n" and "n" in vals:
                vals["n"] = -8
            elif kind == "invalid-a" and "a" in vals:
                # (bounded: when `a` also feeds a duration, 1e7 would ask for a
                # waveform of 1e9 samples)
                vals["a"] = 1e7 if '"d": {"e": "bin", "op": "*", "a": {"e": "var", "name": "a"}' not in json.dumps(self.world["program"]) else vals["a"] * 40
            elif kind == "extra":
                vals["not_a_variable"] = 1.0
            if kind in ("missing", "size") and (set(vals) != set(names) or kind == "size"):
                B, b_err = self._build(T, vals, qubits)
                self.stats[f"failing_build/{kind}/{'raised' if b_err else 'ok'}"] += 1
                if not b_err and (kind == "missing" and names and set(vals) != set(names) or (kind == "size" and "arr" in names and T.is_parametrized())):
                    self.viol("C08/bad-build-accepted", i, f"build with {kind} variable values was accepted")
            else:
                if kind == "extra":
                    v2 = dict(vals)
                    v2.pop("not_a_variable")
                    B, b_err = self._build(T, vals, qubits)
                    D, d_err = self.tw.direct(v2, qubits, self.mask)
                    if (b_err is None) != (d_err is None):
                        self.viol("C08/build-differs", i, f"build with an extra unknown name: build {'raised' if b_err else 'ok'}, direct {'raised' if d_err else 'ok'}")
                    elif not b_err and not keys_close(seq_key(B), seq_key(D)):
                        self.viol("C08/build-differs", i, "build with an extra unknown name differs from direct construction")
                else:
                    self.compare_build(i, T, vals, qubits, "C08", who="failing-build")
                    self.stats["probe/failing_build_mid_replay"] += 1
            self.check_template_unchanged(i, f"failing build ({kind})")
        elif k == "t_str":
            with warnings.catch_warnings():
                warnings.simplefilter("ignore")
                str(T)
            self.check_template_unchanged(i, "str()")
        elif k == "t_abstract":
            try:
                T.to_abstract_repr(skip_validation=True)
            except Exception:  # noqa: BLE001
                pass
            self.check_template_unchanged(i, "to_abstract_repr()")
        elif k == "t_sibling":
            from pulser.register.mappable_reg import MappableRegister

            if op["kind"] == "switch_device" and op.get("rename"):
                # switch_device tries every assignment of device channels to declared
                # channels (|device channels| ** |declared|): bounded, as a time limit
                nd = len(T.device.channels) + len(T.device.dmm_channels)
                if nd ** len(T.declared_channels) > 3000:
                    self.stats["sibling_skipped/too_many_channel_assignments"] += 1
                    op = dict(op, rename=False)
            with warnings.catch_warnings():
                warnings.simplefilter("ignore")
                try:
                    if op["kind"] == "switch_register":
                        newreg = MappableRegister(self.tw.layout, *self.world["register"]["ids"]) if self.tw.mappable else W.build_register(self.world["register"])
                        S = T.switch_register(newreg)
                    else:
                        S = T.switch_device(W.build_device(dict(self.world["device"], name="Twin") if op.get("rename") and self.world["device"]["kind"] != "builtin" else self.world["device"]), strict=True)
                except Exception as e:  # noqa: BLE001
                    self.stats[f"sibling_refused/{type(e).__name__}"] += 1
                    S = None
            if S is not None:
                label = self.profile.get("sibling_label", "C08") if op["kind"] == "switch_device" else "C08"
                self.compare_build(i, S, self._vals(op["i"]), self._qubits(op["m"]), label, who="sibling-build")
                self.stats["probe/sibling_build"] += 1
                self.stats[f"probe/sibling_build_{op['kind']}"] += 1
                if op.get("extend") and S is not T:
                    # the sibling is extended (a new variable, used in a delay): the
                    # template it was derived from is another object and stays as it was
                    try:
                        xv = S.declare_variable("sib_extra", dtype=int)
                        chs = [n for n, c in S.declared_channels.items()]
                        if chs and not S.is_measured():
                            S.delay(xv, chs[0])
                        self.stats["probe/sibling_extended"] += 1
                    except Exception as e:  # noqa: BLE001
                        self.stats[f"sibling_extend_refused/{type(e).__name__}"] += 1
                    vals, qubits = self._vals(op["i"]), self._qubits(op["m"])
                    self.compare_build(i, T, vals, qubits, "C08", who="build-after-sibling-extended")
            self.check_template_unchanged(i, "a sibling's build")
        elif k == "t_restart":
            self.restart(i, op)
        elif k == "t_built_restart":
            self.built_restart(i, op)
        elif k == "cache_clear":
            env.clear_caches()
        self.h.update((json.dumps(op, sort_keys=True) + "|" + str(len(self.violations)) + "\n").encode())

    def _ok_refusal(self, kind, e) -> bool:
        """The only refusals the property leaves open: the legacy coder covers
        built-in and virtual devices only (a custom physical device class is not
        serialisable), and nothing else."""
        if kind == "legacy":
            return self.world["device"]["kind"] == "physical"
        # the abstract representation documents one waveform it cannot carry: an
        # InterpolatedWaveform with another interpolator or interpolator keywords
        # (AbstractReprError; a bare ValueError from the signature check when the
        # waveform is parametrized)
        if "interp1d_kind" in json.dumps(self.world["program"]) and type(e).__name__ in ("AbstractReprError", "ValueError") and "nterpolat" in str(e):
            self.stats["documented_refusal/interpolator_kwargs"] += 1
            return True
        return False

    def built_restart(self, i, op):
        """Round trip of the BUILT sequence (the instance a user submits)."""
        from pulser import Sequence

        kind = op["kind"]
        vals, qubits = self._vals(op["i"]), self._qubits(op["m"])
        B, b_err = self._build(self.tw.T, vals, qubits)
        if b_err:
            self.stats["built_restart/build_refused"] += 1
            return
        try:
            with warnings.catch_warnings():
                warnings.simplefilter("ignore")
                if kind == "abstract":
                    s = B.to_abstract_repr(skip_validation=True)
                    B2 = Sequence.from_abstract_repr(s)
                else:
                    B2 = Sequence._deserialize(B._serialize())
        except Exception as e:  # noqa: BLE001
            name = type(e).__name__
            self.stats[f"built_restart_refused/{kind}/{name}"] += 1
            if not self._ok_refusal(kind, e):
                self.viol("C04/built-serialise-raised", i, f"{kind} round trip of build({vals}) raised {name}: {str(e)[:140]}")
            return
        self.stats[f"probe/built_restart_{kind}"] += 1
        if kind == "abstract" and self.n_validated < 3:
            self.n_validated += 1
            from pulser.json.abstract_repr.validation import validate_abstract_repr

            try:
                validate_abstract_repr(s, "sequence")
                self.stats["probe/built_schema_validated"] += 1
            except Exception as e:  # noqa: BLE001
                self.viol("C04/built-schema-invalid", i, f"abstract representation of build({vals}) is not schema-valid: {type(e).__name__}: {str(e)[:140]}")
        k1, k2 = seq_key(B), seq_key(B2)
        if not keys_close(k1, k2):
            self.viol("C04/built-roundtrip-differs", i, f"{kind} round trip of build({vals}) differs: {key_diff(k1, k2)}")
        self.check_template_unchanged(i, "serialising a built sequence")

    def restart(self, i, op):
        from pulser import Sequence

        T = self.tw.T
        kind = op["kind"]
        try:
            with warnings.catch_warnings():
                warnings.simplefilter("ignore")
                if kind == "abstract":
                    s = T.to_abstract_repr(skip_validation=True)
                    T2 = Sequence.from_abstract_repr(s)
                else:
                    T2 = Sequence._deserialize(T._serialize())
        except Exception as e:  # noqa: BLE001
            name = type(e).__name__
            self.stats[f"restart_refused/{kind}/{name}"] += 1
            self.stats[f"restart_refused_msg/{kind}/{name}: {re.sub(r'[0-9.]+', '#', str(e))[:70]}"] += 1
            ok_refusal = self._ok_refusal(kind, e)
            if not ok_refusal:
                self.viol("C04/param-serialise-raised", i, f"{kind} round trip of the template raised {name}: {str(e)[:140]}")
            return
        self.stats[f"probe/template_restart_{kind}"] += 1
        if kind == "abstract" and self.n_validated < 2:
            self.n_validated += 1
            from pulser.json.abstract_repr.validation import validate_abstract_repr

            try:
                validate_abstract_repr(s, "sequence")
                self.stats["probe/template_schema_validated"] += 1
            except Exception as e:  # noqa: BLE001
                self.viol("C04/param-schema-invalid", i, f"abstract representation of the template is not schema-valid: {type(e).__name__}: {str(e)[:140]}")
        na = len(self.world["assignments"])
        nm = len(self.world.get("mappings", [])) or 1
        for a in range(min(na, 3)):
            vals, qubits = self._vals(a), self._qubits(a % nm)
            B1, e1 = self._build(T, vals, qubits)
            B2, e2 = self._build(T2, vals, qubits)
            if (e1 is None) != (e2 is None):
                self.viol("C04/param-roundtrip-differs", i, f"after the {kind} round trip build({vals}) {'raises ' + str(e2) if e2 else 'succeeds'} while the original {'raises ' + str(e1) if e1 else 'succeeds'}")
            elif e1 is None:
                k1, k2 = seq_key(B1), seq_key(B2)
                if not keys_close(k1, k2):
                    self.viol("C04/param-roundtrip-differs", i, f"after the {kind} round trip build({vals}) differs: {key_diff(k1, k2)}")
        if sorted(T.declared_variables) != sorted(T2.declared_variables):
            self.viol("C04/param-roundtrip-differs", i, "declared variables differ after the round trip")
        # continue on the restored template (inspecting it is part of "behaviourally
        # identical": the original template could be fingerprinted)
        try:
            fp2 = fingerprint(T2)
        except env.HarnessError:
            raise
        except Exception as e:  # noqa: BLE001
            self.viol("C04/param-roundtrip-differs", i, f"the template restored by the {kind} round trip cannot be inspected (declared channels / str / abstract repr): {type(e).__name__}: {str(e)[:120]}")
            return
        self.tw.T = T2
        self.fp = fp2


def run_template(prop: str, seed: int, run: int, profile: dict, world=None, history=None) -> RunResult:
    env.fresh_run_state()
    observe.reset_run_caches()
    if world is None:
        world = gen_template_world(seed, prop, run, profile)
    tr = TemplateRun(world, profile)
    if history is None:
        history = gen_history(stream(seed, prop, run, "faults"), world, profile)
    want = profile.get("_want")
    for i, op in enumerate(history):
        tr.step(i, op)
        if tr.violations and (want is None or any(v.oracle == want for v in tr.violations)):
            break
    tr.stats["steps"] = len(tr.trace)
    prefix = profile.get("only_prefix")
    vs = [v for v in tr.violations if not prefix or v.oracle.startswith(prefix)]
    tsig = hashlib.blake2b(json.dumps([world["program"], world["variables"], history], sort_keys=True, default=str).encode(), digest_size=8).hexdigest()
    nt = (
        len(world["variables"]) >= 2
        and tr.stats["program_ops_with_expr"] >= 1
        and tr.stats["op/t_build"] >= 3
    )
    return RunResult(
        world=world,
        trace=tr.trace,
        violations=vs,
        stats=tr.stats,
        digest=tr.h.hexdigest(),
        sim_ns=0,
        n_steps=len(tr.trace),
        ilv_sig=hashlib.blake2b(json.dumps([o["op"] for o in history]).encode(), digest_size=8).hexdigest(),
        state_sigs=frozenset(),
        nontrivial=nt,
        trace_sig=tsig,
    )
