"""Structural matchers for known findings, evaluated on a *minimised* replay."""
from __future__ import annotations


def _chan_spec(doc: dict, name: str):
    cid = None
    for rec in doc["trace"]:
        op = rec["op"]
        if op["op"] == "declare_channel" and op["name"] == name and rec.get("outcome", "ok") == "ok":
            cid = op["channel_id"]
    dev = doc["world"]["device"]
    if cid is None or dev.get("kind") == "builtin":
        return None
    for c in dev["channels"]:
        if c["id"] == cid:
            return c
    return None


def _violating_op(doc: dict):
    step = doc["expected"].get("step")
    if step is None or step >= len(doc["trace"]):
        return doc["trace"][-1]["op"]
    return doc["trace"][step]["op"]


def slow_eom_channel(doc: dict, params: dict) -> bool:
    """The violating call acts on a channel whose EOM is slower than the channel."""
    op = _violating_op(doc)
    if "ch" not in op:
        return False
    if params.get("ops") and op["op"] not in params["ops"]:
        return False
    spec = _chan_spec(doc, op["ch"])
    if not spec or not spec.get("eom") or not spec.get("mod_bandwidth"):
        return False
    if not spec["eom"]["mod_bandwidth"] < spec["mod_bandwidth"]:
        return False
    # an EOM block must be involved in the minimised history
    return any(r["op"]["op"] == "enable_eom_mode" and r["op"].get("ch") == op["ch"] for r in doc["trace"])


MATCHERS = {"slow_eom_channel": slow_eom_channel}


def variable_after_measure(doc: dict, params: dict) -> bool:
    """The violating call carries a Variable and follows a successful measure."""
    step = doc["expected"].get("step", len(doc["trace"]) - 1)
    tr = doc["trace"]
    if step >= len(tr):
        return False
    VAR_OPS = ("add_var", "delay_var", "add_eom_pulse_var", "enable_eom_var")
    k_meas = next((k for k, r in enumerate(tr[:step]) if r["op"]["op"] == "measure" and r.get("outcome") == "ok"), None)
    if k_meas is None:
        return False
    # the defect is specific to a sequence that was still a REGULAR one when it
    # was measured: an own variable was used (successfully) only afterwards
    if any(r["op"]["op"] in VAR_OPS and not r["op"].get("foreign") and r.get("outcome", "ok") == "ok" for r in tr[:k_meas]):
        return False
    for r in tr[k_meas + 1 : step + 1]:
        if r["op"]["op"] in VAR_OPS and not r["op"].get("foreign"):
            return True
    return False


MATCHERS["variable_after_measure"] = variable_after_measure


def slow_eom_any(doc: dict, params: dict) -> bool:
    """Some channel of the minimised history has an EOM slower than the channel
    itself and is put into EOM mode."""
    for rec in doc["trace"]:
        op = rec["op"]
        if op["op"] == "enable_eom_mode":
            spec = _chan_spec(doc, op["ch"])
            if spec and spec.get("eom") and spec.get("mod_bandwidth") and spec["eom"]["mod_bandwidth"] < spec["mod_bandwidth"]:
                return True
    return False


MATCHERS["slow_eom_any"] = slow_eom_any


def multi_channel_same_basis(doc: dict, params: dict) -> bool:
    """At least two (non-DMM) channels addressing the same basis are declared."""
    dev = doc["world"]["device"]
    basis_of = {}
    if dev.get("kind") == "builtin":
        import pulser.devices as pd

        d = getattr(pd, dev["name"])
        basis_of = {cid: ch.basis for cid, ch in d.channels.items()}
    else:
        m = {"Rydberg": "ground-rydberg", "Raman": "digital", "Microwave": "XY"}
        basis_of = {c["id"]: m[c["cls"]] for c in dev["channels"]}
    seen: dict = {}
    for rec in doc["trace"]:
        op = rec["op"]
        if op["op"] == "declare_channel" and rec.get("outcome", "ok") == "ok":
            b = basis_of.get(op["channel_id"])
            seen[b] = seen.get(b, 0) + 1
    if not any(n >= 2 for n in seen.values()):
        return False
    if doc["expected"].get("oracle") == "C05/formula":
        # the defect misattributes a PHASE: the deviating matrix element must have
        # the documented magnitude (anything else is a different violation)
        import re

        nums = re.findall(r"complex128\(([^)]*)\)", doc["expected"].get("msg", ""))
        if len(nums) >= 2:
            try:
                z1, z2 = complex(nums[0].replace(" ", "")), complex(nums[1].replace(" ", ""))
            except ValueError:
                return True
            return abs(abs(z1) - abs(z2)) <= 1e-6 * max(1.0, abs(z2))
    return True


MATCHERS["multi_channel_same_basis"] = multi_channel_same_basis


def detuning_map_3d(doc: dict, params: dict) -> bool:
    """A detuning map (explicit or through an Ising-mode SLM mask) on a 3D register."""
    if doc["world"]["register"].get("dim", 2) != 3:
        return False
    return any(r["op"]["op"] in ("config_detuning_map", "config_slm_mask") for r in doc["trace"])


MATCHERS["detuning_map_3d"] = detuning_map_3d


def full_default_with_own_times(doc: dict, params: dict) -> bool:
    """default_evaluation_times == 'Full' and some observable has its own times."""
    cfg = doc["world"].get("v2_config") or {}
    return cfg.get("default_evaluation_times") == "Full" and any(o.get("evaluation_times") for o in cfg.get("observables", []))


MATCHERS["full_default_with_own_times"] = full_default_with_own_times


def strict_switch_with_slm_mask(doc: dict, params: dict) -> bool:
    """A strict device switch of a sequence that configured an SLM mask."""
    step = doc["expected"].get("step", len(doc["trace"]) - 1)
    tr = doc["trace"]
    if step < len(tr) and tr[step]["op"]["op"] == "t_sibling":
        # template world: the (strict) switch is a sibling step, the mask is part of
        # the template program, and the device must offer DMMs with different
        # bottom detunings for the automatic pulse to change
        if tr[step]["op"].get("kind") != "switch_device" or not tr[step]["op"].get("rename"):
            return False
        dmm = doc["world"]["device"].get("dmm") or []
        if len({(d.get("bottom_detuning"), d.get("total_bottom_detuning")) for d in dmm}) < 2:
            return False
        return any(o["op"] == "config_slm_mask" for o in doc["world"].get("program", []))
    if step >= len(tr) or tr[step]["op"]["op"] != "switch_device" or not tr[step]["op"].get("strict"):
        return False
    return any(r["op"]["op"] == "config_slm_mask" for r in tr[:step])


MATCHERS["strict_switch_with_slm_mask"] = strict_switch_with_slm_mask


def noise_irrelevant_runs(doc: dict, params: dict) -> bool:
    """A noise model given runs/samples_per_run without any stochastic source."""

    def specs(o):
        if isinstance(o, dict):
            if "runs" in o and not any(o.get(k) for k in ("state_prep_error", "temperature", "amp_sigma")):
                yield o
            for v in o.values():
                yield from specs(v)
        elif isinstance(o, list):
            for v in o:
                yield from specs(v)

    return any(True for r in doc["trace"] for _ in specs(r["op"]))


MATCHERS["noise_irrelevant_runs"] = noise_irrelevant_runs


def detmap_3d_pool(doc: dict, params: dict) -> bool:
    """A detuning map whose traps have three coordinates."""
    for r in doc["trace"]:
        op = r["op"]
        if op.get("op") == "construct" and op.get("kind") == "detmap" and len(op["spec"]["layout"]["coords"][0]) == 3:
            return True
    return False


MATCHERS["detmap_3d_pool"] = detmap_3d_pool


def custom_waveform_variable(doc: dict, params: dict) -> bool:
    """The template has a CustomWaveform whose samples are a variable."""
    import json as _json

    return '"w": "custom", "samples": {"e": "arr"' in _json.dumps(doc.get("world", {}).get("program", []))


MATCHERS["custom_waveform_variable"] = custom_waveform_variable
