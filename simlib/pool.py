"""POOL-SIM (C17): a pool of live serialisable API objects.

Operations, interleaved by the seeded scheduler over several 'constructor
actors': construct, persist/restore through the abstract representation
(schema-validated), convert (NoiseModel <-> SimConfig), use (read-only calls,
passing an object to another constructor), drop. Oracles: the aliasing
invariant (after every operation the deep fingerprint of every OTHER live
object is unchanged), restored == original, conversion round trips.
"""
from __future__ import annotations

import hashlib
import json
import math
import random
import uuid
import warnings
from collections import Counter

import numpy as np

from . import env, gen as G, observe, world as W
from .engine import RunResult, Violation, stream

TWO_PI = 2 * math.pi


# ------------------------------------------------------------------ generators
def gen_noise(rng: random.Random) -> dict:
    p: dict = {}
    kinds = rng.sample(["SPAM", "doppler", "amplitude", "relaxation", "dephasing", "depolarizing", "eff"], rng.randint(0, 3))
    if "SPAM" in kinds:
        for k in rng.sample(["state_prep_error", "p_false_pos", "p_false_neg"], rng.randint(1, 3)):
            p[k] = G.pick(rng, [0.0, 0.01, 0.3, 1.0])
    if "doppler" in kinds:
        p["temperature"] = G.pick(rng, [0.0, 50.0, 1000.0])
    if "amplitude" in kinds:
        if rng.random() < 0.7:
            p["amp_sigma"] = G.pick(rng, [0.0, 0.05, 0.5])
        if rng.random() < 0.7 or "amp_sigma" not in p:
            p["laser_waist"] = G.pick(rng, [100.0, 175.0])
    if "relaxation" in kinds:
        p["relaxation_rate"] = G.pick(rng, [0.0, 0.01, 0.5])
    if "dephasing" in kinds:
        if rng.random() < 0.7:
            p["dephasing_rate"] = G.pick(rng, [0.0, 0.05, 1.0])
        if rng.random() < 0.5 or "dephasing_rate" not in p:
            p["hyperfine_dephasing_rate"] = G.pick(rng, [0.0, 1e-3])
    if "depolarizing" in kinds:
        p["depolarizing_rate"] = G.pick(rng, [0.0, 0.05])
    if "eff" in kinds:
        d = 3 if rng.random() < 0.3 else 2
        m = np.zeros((d, d))
        m[rng.randrange(d), rng.randrange(d)] = 1.0
        p["eff_noise_rates"] = [G.pick(rng, [0.01, 0.2])]
        p["eff_noise_opers"] = [m.tolist()]
        if rng.random() < 0.5:
            # several operators, two of them at the SAME rate (a rate is not a key)
            for _ in range(rng.randint(1, 2)):
                m2 = np.zeros((d, d))
                m2[rng.randrange(d), rng.randrange(d)] = 1.0
                if m2.tolist() not in p["eff_noise_opers"]:
                    p["eff_noise_opers"].append(m2.tolist())
                    p["eff_noise_rates"].append(G.pick(rng, [p["eff_noise_rates"][0], p["eff_noise_rates"][0], 0.07]))
        if d == 3:
            p["with_leakage"] = True
            for k in ("dephasing_rate", "hyperfine_dephasing_rate", "depolarizing_rate"):
                p.pop(k, None)
    stochastic = any(p.get(k) for k in ("state_prep_error", "temperature", "amp_sigma"))
    if stochastic or rng.random() < 0.2:
        p["runs"] = G.pick(rng, [1, 3, 15, 40])
        p["samples_per_run"] = G.pick(rng, [1, 2, 5])
    return p


def build_noise(p: dict):
    from pulser import NoiseModel

    kw = dict(p)
    if "eff_noise_opers" in kw:
        kw["eff_noise_opers"] = [np.array(m) for m in kw["eff_noise_opers"]]
    return NoiseModel(**kw)


def gen_layout(rng: random.Random) -> dict:
    dim = 3 if rng.random() < 0.25 else 2
    n = rng.randint(4, 9)
    cells = rng.sample(range(25), n)
    coords = []
    for c in cells:
        xy = [(c % 5) * 5.0 - 10.0, (c // 5) * 5.0 - 10.0]
        if dim == 3:
            xy.append(G.pick(rng, [0.0, 5.0, -5.0]))
        coords.append(xy)
    if rng.random() < 0.3:
        # coordinates that round to NEGATIVE zero (what cos/sin layouts contain)
        coords = [[(-1e-12 if v == 0.0 and rng.random() < 0.7 else v) for v in c] for c in coords]
    return {"coords": coords, "slug": G.pick(rng, [None, None, "lay-" + str(rng.randrange(100))])}


def build_layout(s: dict):
    from pulser.register.register_layout import RegisterLayout

    return RegisterLayout(s["coords"], slug=s["slug"]) if s["slug"] else RegisterLayout(s["coords"])


def gen_register(rng: random.Random) -> dict:
    s = W.gen_register(rng, n_min=1, n_max=5, dim3_p=0.3)
    if rng.random() < 0.35:
        lay = gen_layout(rng)
        k = rng.randint(1, min(4, len(lay["coords"])))
        s = {"layout": lay, "traps": rng.sample(range(len(lay["coords"])), k), "ids": ["q%d" % i for i in range(k)] if rng.random() < 0.5 else None}
    return s


def build_register(s: dict):
    if "layout" in s:
        lay = build_layout(s["layout"])
        return lay.define_register(*s["traps"], qubit_ids=s["ids"]) if s["ids"] else lay.define_register(*s["traps"])
    return W.build_register(s)


def gen_detmap(rng: random.Random) -> dict:
    lay = gen_layout(rng)
    n = len(lay["coords"])
    ws = [0.0] * n
    hot = rng.sample(range(n), rng.randint(1, n))
    raw = [rng.random() + 0.1 for _ in hot]
    for i, r in zip(hot, raw):
        ws[i] = r / sum(raw)
    return {"layout": lay, "weights": ws, "slug": G.pick(rng, [None, "dm"])}


def build_detmap(s: dict):
    from pulser.register.weight_maps import DetuningMap

    return DetuningMap(s["layout"]["coords"], s["weights"], slug=s["slug"]) if s["slug"] else DetuningMap(s["layout"]["coords"], s["weights"])


def gen_device(rng: random.Random) -> dict:
    s = W.gen_device(rng, mode=G.pick(rng, ["virtual", "virtual", "physical"]), xy_p=0.2)
    if rng.random() < 0.3:
        s["noise"] = gen_noise(rng)
    if s["kind"] == "physical" and rng.random() < 0.4:
        s["layouts"] = [{"coords": [[x * 5.0, y * 5.0] for x in range(3) for y in range(2)], "slug": "cal%d" % rng.randrange(9)}]
        r = rng.random()
        if r < 0.3:
            # a second layout, with the SAME name (names are not identities)
            s["layouts"].append({"coords": [[x * 6.0, y * 6.0] for x in range(2) for y in range(3)], "slug": s["layouts"][0]["slug"]})
        elif r < 0.5:
            s["layouts"].append({"coords": [[x * 6.0, y * 6.0] for x in range(2) for y in range(3)], "slug": None})
            s["layouts"].append({"coords": [[x * 7.0, y * 5.0] for x in range(2) for y in range(2)], "slug": None})
    return s


def build_device(s: dict):
    import dataclasses

    d = W.build_device({k: v for k, v in s.items() if k not in ("noise", "layouts")})
    kw = {}
    if "noise" in s:
        kw["default_noise_model"] = build_noise(s["noise"])
    if "layouts" in s:
        kw["pre_calibrated_layouts"] = tuple(build_layout(l) for l in s["layouts"])
    return dataclasses.replace(d, **kw) if kw else d


def gen_state(rng: random.Random) -> dict:
    from .emu2 import gen_amplitudes

    states = G.pick(rng, [["r", "g"], ["g", "h"], ["u", "d"], ["r", "g", "h"], ["0", "1"], ["r", "g", "x"]])
    n = rng.randint(1, 3)
    return {"eigenstates": states, "n": n, "amplitudes": gen_amplitudes(rng, states, n), "cls": G.pick(rng, ["StateRepr", "QutipState"])}


def build_state(s: dict):
    from .emu2 import _c

    if s["cls"] == "QutipState":
        from pulser_simulation import QutipState as cls
    else:
        from pulser.backend.state import StateRepr as cls
    return cls.from_state_amplitudes(eigenstates=tuple(s["eigenstates"]), amplitudes={k: _c(v) for k, v in s["amplitudes"].items()})


def gen_operator(rng: random.Random) -> dict:
    from .emu2 import gen_operator as go

    states = G.pick(rng, [["r", "g"], ["g", "h"], ["u", "d"], ["r", "g", "h"]])
    n = rng.randint(1, 3)
    return {"eigenstates": states, "n": n, "operations": go(rng, states, n), "cls": G.pick(rng, ["OperatorRepr", "QutipOperator"])}


def build_operator(s: dict):
    if s["cls"] == "QutipOperator":
        from pulser_simulation import QutipOperator as cls
    else:
        from pulser.backend.operator import OperatorRepr as cls
    return cls.from_operator_repr(eigenstates=tuple(s["eigenstates"]), n_qudits=s["n"], operations=[(c, [(q, set(qs)) for q, qs in t]) for c, t in s["operations"]])


def gen_config(rng: random.Random) -> dict:
    from .emu2 import gen_v2_config

    states = G.pick(rng, [["r", "g"], ["g", "h"], ["u", "d"]])
    n = rng.randint(1, 3)
    spec = gen_v2_config(rng, states, n, 100, {})
    # StateResult has no abstract representation
    spec["observables"] = [o for o in spec["observables"] if o["kind"] != "StateResult"] or [{"kind": "Occupation"}]
    spec["noise_full"] = gen_noise(rng) if rng.random() < 0.5 else {}
    return {"states": states, "n": n, "spec": spec, "cls": G.pick(rng, ["QutipConfig", "EmulationConfig"])}


def build_config(s: dict):
    import pulser.backend as pb
    from pulser.backend.operator import OperatorRepr
    from pulser.backend.state import StateRepr

    from .emu2 import _c, build_v2_config

    if s["cls"] == "QutipConfig":
        spec = dict(s["spec"])
        spec["noise"] = {k: v for k, v in s["spec"]["noise_full"].items() if k not in ("eff_noise_opers", "eff_noise_rates", "with_leakage")} if s["spec"]["noise_full"] else {}
        return build_v2_config(spec, s["states"], s["n"])
    spec = s["spec"]
    obs = []
    for o in spec["observables"]:
        kw = {}
        for a in ("evaluation_times", "tag_suffix"):
            if a in o:
                kw[a] = o[a]
        k = o["kind"]
        if k in ("BitStrings", "Occupation", "CorrelationMatrix") and "one_state" in o:
            kw["one_state"] = o["one_state"]
        if k == "BitStrings":
            kw["num_shots"] = o["num_shots"]
        if k == "Fidelity":
            obs.append(pb.Fidelity(StateRepr.from_state_amplitudes(eigenstates=tuple(s["states"]), amplitudes={a: _c(v) for a, v in o["amplitudes"].items()}), **kw))
        elif k == "Expectation":
            obs.append(pb.Expectation(OperatorRepr.from_operator_repr(eigenstates=tuple(s["states"]), n_qudits=s["n"], operations=[(c, [(q, set(qs)) for q, qs in t]) for c, t in o["operator"]]), **kw))
        else:
            obs.append(getattr(pb, k)(**kw))
    kwargs = dict(observables=obs, default_evaluation_times=spec["default_evaluation_times"])
    if spec["noise_full"]:
        kwargs["noise_model"] = build_noise(spec["noise_full"])
    if "initial_amplitudes" in spec:
        kwargs["initial_state"] = StateRepr.from_state_amplitudes(eigenstates=tuple(s["states"]), amplitudes={a: _c(v) for a, v in spec["initial_amplitudes"].items()})
    return pb.EmulationConfig(**kwargs)


def gen_results(rng: random.Random) -> dict:
    if rng.random() < 0.3:
        # filled by hand through the public Observable.__call__: several stages,
        # each with a fresh observable instance; tags may repeat across stages
        n_st = rng.randint(1, 3)
        t0 = 0.0
        stages = []
        for k in range(n_st):
            ts = sorted({round(t0 + rng.uniform(0.01, 0.3), 3) for _ in range(rng.randint(1, 3))})
            t0 = ts[-1]
            stages.append({"suffix": G.pick(rng, [None, None, "a", "b"]), "value": G.pick(rng, [1.0, -2.5, [0.25, 0.75], {"10": 3, "01": 7}]), "times": ts})
        return {"manual": True, "stages": stages, "n": rng.randint(1, 2)}
    return {"omega": round(rng.uniform(2, 9), 3), "duration": rng.randint(40, 200), "times": G.pick(rng, [[1.0], [0.0, 0.5, 1.0]]), "obs": rng.sample(["BitStrings", "Occupation", "CorrelationMatrix", "Energy", "EnergyVariance"], rng.randint(1, 4)), "n": rng.randint(1, 2), "np_seed": rng.getrandbits(31)}


def _build_results_manual(s: dict):
    import pulser.backend as pb
    from pulser.backend.operator import OperatorRepr
    from pulser.backend.results import Results
    from pulser.backend.state import StateRepr

    class Probe(pb.Observable):
        def __init__(self, value, **kw):
            super().__init__(**kw)
            self.value = value

        @property
        def _base_tag(self):
            return "probe"

        def apply(self, *, config, state, hamiltonian):
            v = self.value
            return Counter(v) if isinstance(v, dict) else (np.array(v) if isinstance(v, list) else v)

    n = s["n"]
    state = StateRepr.from_state_amplitudes(eigenstates=("r", "g"), amplitudes={"g" * n: 1.0})
    ham = OperatorRepr.from_operator_repr(eigenstates=("r", "g"), n_qudits=n, operations=[(1.0, [])])
    res = Results(atom_order=tuple(f"q{k}" for k in range(n)), total_duration=1000)
    for st in s["stages"]:
        ob = Probe(st["value"], evaluation_times=st["times"], tag_suffix=st["suffix"])
        cfg = pb.EmulationConfig(observables=(ob,), default_evaluation_times="Full")
        for t in st["times"]:
            ob(cfg, t, state, ham, res)
    return res


def build_results(s: dict):
    if s.get("manual"):
        with warnings.catch_warnings():
            warnings.simplefilter("ignore")
            return _build_results_manual(s)
    import pulser.backend as pb
    from pulser import Pulse
    from pulser_simulation import QutipBackendV2, QutipConfig

    from .scen import _seq

    seq, ids = _seq("ground-rydberg", s["n"], 7.0)
    seq.declare_channel("ch", "ryd_g")
    seq.add(Pulse.ConstantPulse(s["duration"], s["omega"], 0.0, 0.0), "ch")
    obs = [getattr(pb, k)(**({"num_shots": 50} if k == "BitStrings" else {})) for k in s["obs"]]
    np.random.seed(s["np_seed"])
    return QutipBackendV2(seq, config=QutipConfig(observables=obs, default_evaluation_times=s["times"])).run()


KINDS = {
    "noise": (gen_noise, build_noise),
    "layout": (gen_layout, build_layout),
    "register": (gen_register, build_register),
    "detmap": (gen_detmap, build_detmap),
    "device": (gen_device, build_device),
    "state": (gen_state, build_state),
    "operator": (gen_operator, build_operator),
    "config": (gen_config, build_config),
    "results": (gen_results, build_results),
}
WEIGHTS = {"noise": 3, "layout": 1.5, "register": 2, "detmap": 1.5, "device": 2.5, "state": 3, "operator": 2, "config": 3, "results": 1}


# ---------------------------------------------------------------- fingerprints
def _np(x):
    return np.asarray(x.as_array(detach=True) if hasattr(x, "as_array") else x)


def fingerprint(kind: str, obj) -> str:
    """Deep, order-stable description of every public field of an object."""
    import dataclasses

    def enc(x, depth=0):
        if depth > 8:
            return "..."
        if isinstance(x, uuid.UUID):
            return str(x)
        if hasattr(x, "full") and hasattr(x, "dims"):
            return ["qobj", x.dims, hashlib.blake2b(np.ascontiguousarray(x.full()).tobytes(), digest_size=8).hexdigest()]
        if hasattr(x, "as_array") or isinstance(x, np.ndarray):
            a = _np(x)
            return ["arr", list(a.shape), hashlib.blake2b(np.ascontiguousarray(a.astype(complex)).tobytes(), digest_size=8).hexdigest()]
        if isinstance(x, (str, int, float, bool, complex)) or x is None:
            return repr(x)
        if isinstance(x, (list, tuple)):
            return [enc(y, depth + 1) for y in x]
        if isinstance(x, (set, frozenset)):
            return sorted(json.dumps(enc(y, depth + 1), sort_keys=True, default=str) for y in x)
        if isinstance(x, dict):
            return {str(k): enc(v, depth + 1) for k, v in sorted(x.items(), key=lambda kv: str(kv[0]))}
        if dataclasses.is_dataclass(x) and not isinstance(x, type):
            return {"__cls__": type(x).__name__, **{f.name: enc(getattr(x, f.name, None), depth + 1) for f in dataclasses.fields(x)}}
        if hasattr(x, "__dict__"):
            d = {k: v for k, v in vars(x).items() if not callable(v)}
            return {"__cls__": type(x).__name__, **{k: enc(v, depth + 1) for k, v in sorted(d.items())}}
        return repr(x)

    extra = {}
    try:
        if kind == "state":
            extra = {"n_qudits": obj.n_qudits, "eigenstates": list(obj.eigenstates), "qudit_dim": obj.qudit_dim}
        elif kind == "register":
            extra = {"ids": list(obj.qubit_ids), "layout": enc(obj.layout)}
        elif kind == "layout":
            extra = {"traps": enc(obj.coords), "slug": obj.slug, "hash": obj.static_hash()}
        elif kind == "config":
            extra = {"tags": [o.tag for o in obj.observables], "uuids": [str(o.uuid) for o in obj.observables]}
        elif kind == "noise":
            extra = {"types": sorted(obj.noise_types)}
        elif kind == "results":
            extra = {"tags": obj.get_result_tags(), "tagged": enc(obj.get_tagged_results())}
    except Exception as e:  # noqa: BLE001
        extra = {"extra_raised": type(e).__name__}
    return hashlib.blake2b(json.dumps([enc(obj), extra], sort_keys=True, default=str).encode(), digest_size=10).hexdigest()


# ------------------------------------------------------------ persist / restore
def persist_restore(kind: str, obj):
    """(json string, restored object); raises what the library raises."""
    from pulser.json.abstract_repr.deserializer import deserialize_abstract_layout, deserialize_abstract_noise_model, deserialize_abstract_register, deserialize_device
    from pulser.json.abstract_repr.serializer import AbstractReprEncoder
    from pulser.json.abstract_repr.validation import validate_abstract_repr

    if kind == "noise":
        s = obj.to_abstract_repr()
        validate_abstract_repr(s, "noise")
        return s, type(obj).from_abstract_repr(s)
    if kind == "layout":
        s = obj.to_abstract_repr()
        validate_abstract_repr(s, "layout")
        return s, type(obj).from_abstract_repr(s)
    if kind == "register":
        s = obj.to_abstract_repr()
        validate_abstract_repr(s, "register")
        return s, type(obj).from_abstract_repr(s)
    if kind == "device":
        s = obj.to_abstract_repr()
        validate_abstract_repr(s, "device")
        return s, type(obj).from_abstract_repr(s)
    if kind == "detmap":
        from pulser.json.abstract_repr.deserializer import _deserialize_det_map

        s = json.dumps(obj, cls=AbstractReprEncoder)
        return s, _deserialize_det_map(json.loads(s))
    if kind == "config":
        s = obj.to_abstract_repr()
        return s, type(obj).from_abstract_repr(s)
    if kind == "results":
        from pulser.backend.results import Results

        s = obj.to_abstract_repr()
        return s, Results.from_abstract_repr(s)
    if kind in ("state", "operator"):
        # states and operators travel inside a configuration
        import pulser.backend as pb

        if kind == "state":
            cfg_cls = _cfg_cls_for(obj)
            cfg = cfg_cls(observables=[pb.Fidelity(obj)], initial_state=obj) if True else None
            s = cfg.to_abstract_repr()
            back = type(cfg).from_abstract_repr(s)
            return s, back.initial_state
        cfg_cls = _cfg_cls_for(obj)
        cfg = cfg_cls(observables=[pb.Expectation(obj)])
        s = cfg.to_abstract_repr()
        back = type(cfg).from_abstract_repr(s)
        return s, back.observables[0].operator
    raise ValueError(kind)


def _cfg_cls_for(obj):
    import pulser.backend as pb

    if type(obj).__name__.startswith("Qutip"):
        from pulser_simulation import QutipConfig

        return QutipConfig
    return pb.EmulationConfig


def equal(kind: str, a, b) -> tuple[bool, str]:
    try:
        if kind == "results":
            ta, tb = a.get_tagged_results(), b.get_tagged_results()
            if set(ta) != set(tb):
                return False, f"tags {sorted(ta)} vs {sorted(tb)}"
            for t in ta:
                if a.get_result_times(t) != b.get_result_times(t):
                    return False, f"times of {t} differ"
                for x, y in zip(ta[t], tb[t]):
                    if isinstance(x, (dict, Counter)):
                        if dict(x) != dict(y):
                            return False, f"values of {t} differ"
                    elif not np.allclose(np.asarray(x, dtype=complex), np.asarray(y, dtype=complex), rtol=0, atol=1e-12):
                        return False, f"values of {t} differ"
            if not (a.atom_order == b.atom_order and a.total_duration == b.total_duration):
                return False, "atom order / duration"
            # every field: results and times of EVERY observable instance (a tag
            # only names the latest instance that stored under it)
            if {str(k) for k in a._results} != {str(k) for k in b._results} or {str(k) for k in a._times} != {str(k) for k in b._times}:
                return False, f"stored observable instances differ: {len(a._results)} vs {len(b._results)}"
            if {t: str(u) for t, u in a._tagmap.items()} != {t: str(u) for t, u in b._tagmap.items()}:
                return False, "tag map differs"
            bt = {str(k): v for k, v in b._times.items()}
            for k, v in a._times.items():
                if list(v) != list(bt[str(k)]):
                    return False, f"times of instance {k} differ"
            return True, ""
        if kind == "config":
            fa = json.loads(a.to_abstract_repr())
            fb = json.loads(b.to_abstract_repr())
            return fa == fb, "abstract representations of original and restored configuration differ"
        if kind == "detmap":
            return observe.canon(a) == observe.canon(b) and a.slug == b.slug, "weights / traps / slug"
        if kind in ("state", "operator") and type(a).__name__.endswith("Repr"):
            # representation-only classes define no equality: compare fields
            def nums(o):
                if isinstance(o, dict):
                    return {str(k): nums(v) for k, v in o.items()}
                if isinstance(o, (list, tuple, set, frozenset)):
                    xs = [nums(v) for v in o]
                    return sorted(xs, key=repr) if isinstance(o, (set, frozenset)) else xs
                if isinstance(o, (int, float, complex)) and not isinstance(o, bool):
                    c = complex(o)
                    return [round(c.real, 12), round(c.imag, 12)]
                return o

            ra, rb = nums(a._to_abstract_repr()), nums(b._to_abstract_repr())
            same = json.dumps(ra, sort_keys=True, default=str) == json.dumps(rb, sort_keys=True, default=str)
            if kind == "state":
                same = same and a.n_qudits == b.n_qudits
            return same and type(a) is type(b), "representation fields / n_qudits"
        if kind == "state":
            return (a == b) and a.n_qudits == b.n_qudits and tuple(a.eigenstates) == tuple(b.eigenstates), "state / n_qudits / eigenstates"
        if a == b:
            # "in every field": == of layouts compares the traps only, not the slug
            def slugs(kind, o):
                if kind == "layout":
                    return [o.slug]
                if kind == "register":
                    lay = getattr(o, "layout", None)
                    return [None if lay is None else lay.slug, None if lay is None else tuple(o._layout_info.trap_ids)]
                if kind == "device":
                    return [lay.slug for lay in getattr(o, "pre_calibrated_layouts", ())] + sorted(getattr(o, "calibrated_register_layouts", {}))
                return []

            sa, sb = slugs(kind, a), slugs(kind, b)
            if sa != sb:
                return False, f"== holds but layout slugs / trap ids differ: {sa} vs {sb}"
        return a == b, "=="
    except Exception as e:  # noqa: BLE001
        return False, f"comparison raised {type(e).__name__}: {str(e)[:80]}"


# -------------------------------------------------------------------- the run
def gen_history(rng: random.Random, profile: dict) -> list:
    n = rng.randint(profile.get("hist_min", 8), profile.get("hist_max", 22))
    hist = []
    live = 0
    for _ in range(n):
        k = G.wpick(rng, {"construct": 5 if live < 8 else 1, "restore": 3 if live else 0, "convert": 1.2 if live else 0, "use": 2 if live else 0, "drop": 0.7 if live > 2 else 0, "reuse": 0.5 if live < 8 else 0, "mutate": 0.8 if live else 0})
        if k == "mutate":
            # the one documented in-place mutator: VirtualDevice.change_rydberg_level
            hist.append({"op": "mutate", "pick": rng.random(), "level": G.pick(rng, [50, 61, 70, 88]), "actor": rng.randrange(3)})
            continue
        if k == "reuse":
            hist.append({"op": "reuse", "shots": rng.randint(10, 500), "matrix": [[0.0, round(rng.random(), 3)], [0.0, 0.0]], "actor": rng.randrange(3)})
            hist[-1]["matrix"][1][0] = hist[-1]["matrix"][0][1]
            live += 2
            continue
        if k == "construct":
            kind = G.wpick(rng, WEIGHTS)
            spec = KINDS[kind][0](rng)
            prev = [h["spec"] for h in hist if h["op"] == "construct" and h.get("kind") == kind]
            if prev and kind in ("layout", "detmap") and rng.random() < 0.4:
                # a near-twin of an earlier object: same traps, other slug
                spec = json.loads(json.dumps(prev[-1]))
                spec["slug"] = None if spec.get("slug") else "alt-" + str(rng.randrange(100))
            hist.append({"op": "construct", "kind": kind, "spec": spec, "actor": rng.randrange(3)})
            live += 1
        elif k == "restore":
            hist.append({"op": "restore", "pick": rng.random(), "actor": rng.randrange(3)})
            live += 1
        elif k == "convert":
            hist.append({"op": "convert", "pick": rng.random(), "actor": rng.randrange(3)})
        elif k == "use":
            hist.append({"op": "use", "pick": rng.random(), "actor": rng.randrange(3)})
        else:
            hist.append({"op": "drop", "pick": rng.random(), "actor": rng.randrange(3)})
            live -= 1
    return hist


def _use(kind, obj):
    """Read-only calls on an object (and passing it to other constructors)."""
    import pulser.backend as pb

    repr(obj)
    str(obj)
    hash(obj) if kind in ("layout", "noise", "detmap") else None
    if kind == "noise":
        from pulser_simulation import SimConfig

        SimConfig.from_noise_model(obj)
        pb.EmulationConfig(observables=[pb.Occupation()], noise_model=obj)
    elif kind == "state":
        obj.probabilities()
        obj.overlap(obj)
        _cfg_cls_for(obj)(observables=[pb.Fidelity(obj)], initial_state=obj)
    elif kind == "operator":
        _cfg_cls_for(obj)(observables=[pb.Expectation(obj)])
        (obj + obj)
        (2.0 * obj)
    elif kind == "device":
        obj.channels
        obj.dmm_channels
        obj.specs
        obj.to_virtual() if hasattr(obj, "to_virtual") else None
    elif kind == "register":
        obj.qubits
        obj.define_detuning_map({q: 1.0 / len(obj.qubit_ids) for q in obj.qubit_ids})
    elif kind == "layout":
        obj.define_register(0)
        obj.define_detuning_map({0: 1.0})
    elif kind == "detmap":
        obj.sorted_weights
    elif kind == "config":
        type(obj)(**obj._backend_options)
        obj.to_abstract_repr()
    elif kind == "results":
        obj.get_tagged_results()


def run_pool(prop: str, seed: int, run: int, profile: dict, doc=None) -> RunResult:
    env.fresh_run_state()
    if doc is None:
        hist = gen_history(stream(seed, prop, run, "programs"), profile)
    else:
        hist = [r["op"] for r in doc["trace"]]
    stats: Counter = Counter()
    viols: list = []
    pool: list = []  # [kind, obj, fingerprint, spec]
    trace = []
    h = hashlib.blake2b(digest_size=12)
    cnt = [0]

    def fake_uuid():
        cnt[0] += 1
        return uuid.UUID(int=(seed * 1000003 + run) * 100000 + cnt[0])

    orig = uuid.uuid4
    uuid.uuid4 = fake_uuid
    try:
        with warnings.catch_warnings():
            warnings.simplefilter("ignore")
            for i, op in enumerate(hist):
                if viols:
                    break
                out = _step(i, op, pool, stats, viols)
                trace.append({"op": op, "outcome": out})
                h.update((json.dumps(op, sort_keys=True, default=str) + str(out) + "\n").encode())
                # aliasing invariant: nobody else changed
                touched = op.get("_touched")
                for j, ent in enumerate(pool):
                    fp = fingerprint(ent[0], ent[1])
                    if fp != ent[2]:
                        if j == touched:
                            ent[2] = fp
                            continue
                        viols.append(Violation("C17/aliasing", i, f"{op['op']} ({op.get('kind', '')}) changed another live object: {ent[0]} #{j} built from {json.dumps(ent[3], default=str)[:160]}"))
                        ent[2] = fp
                        break
                stats["fingerprints_checked"] += len(pool)
    finally:
        uuid.uuid4 = orig
    stats["steps"] = len(trace)
    sig = hashlib.blake2b(json.dumps(hist, sort_keys=True, default=str).encode(), digest_size=8).hexdigest()
    kinds_used = {e[0] for e in pool}
    return RunResult(
        world={"pool": True},
        trace=trace,
        violations=viols,
        stats=stats,
        digest=h.hexdigest(),
        sim_ns=0,
        n_steps=len(trace),
        ilv_sig=hashlib.blake2b(json.dumps([(o["op"], o.get("kind"), o.get("actor")) for o in hist]).encode(), digest_size=8).hexdigest(),
        state_sigs=frozenset(),
        nontrivial=stats.get("restored_ok", 0) >= 1 and len(kinds_used) >= 3,
        trace_sig=sig,
    )


def _pick(pool, x):
    return int(x * len(pool)) % len(pool) if pool else None


def _step(i, op, pool, stats, viols) -> str:
    k = op["op"]
    op.pop("_touched", None)
    if k == "construct":
        kind = op["kind"]
        try:
            obj = KINDS[kind][1](op["spec"])
        except Exception as e:  # noqa: BLE001
            stats[f"construct_refused/{kind}/{type(e).__name__}"] += 1
            return "raised:" + type(e).__name__
        pool.append([kind, obj, fingerprint(kind, obj), op["spec"]])
        stats[f"constructed/{kind}"] += 1
        if kind == "noise":
            _check_noise_types(i, op["spec"], obj, viols, stats)
        return "ok"
    if k == "reuse":
        # the caller reuses its own argument objects for two constructions
        # and modifies them in between (a parameter sweep)
        import pulser.backend as pb

        try:
            obs = [pb.BitStrings(num_shots=op["shots"]), pb.Occupation(evaluation_times=[0.5])]
            buf = np.array(op["matrix"], dtype=float)
            extra = {"nested": [[1, 2], {"a": [3]}]}
            cfg1 = pb.EmulationConfig(observables=obs, interaction_matrix=buf, **extra)
            pool.append(["config", cfg1, fingerprint("config", cfg1), {"reuse": 1}])
            obs[0].num_shots = op["shots"] + 11
            obs[1].evaluation_times = [0.25]
            buf[0, 1] = buf[1, 0] = buf[0, 1] + 1.0
            extra["nested"][0].append(99)
            cfg2 = pb.EmulationConfig(observables=obs, interaction_matrix=buf, **extra)
            pool.append(["config", cfg2, fingerprint("config", cfg2), {"reuse": 2}])
            stats["probe/arguments_reused_and_modified"] += 1
        except Exception as e:  # noqa: BLE001
            stats[f"reuse_raised/{type(e).__name__}"] += 1
            return "raised:" + type(e).__name__
        return "ok"
    if not pool:
        return "skip"
    j = _pick(pool, op["pick"])
    kind, obj, fp, spec = pool[j]
    if k == "drop":
        pool.pop(j)
        return "ok"
    if k == "mutate":
        # applied to the first live virtual device at or after the pick
        from pulser.devices import VirtualDevice

        cand = [x for x in list(range(j, len(pool))) + list(range(j)) if pool[x][0] == "device" and isinstance(pool[x][1], VirtualDevice)]
        if not cand:
            return "skip"
        j = cand[0]
        dev = pool[j][1]
        try:
            dev.change_rydberg_level(op["level"])
        except Exception as e:  # noqa: BLE001
            stats[f"mutate_raised/{type(e).__name__}"] += 1
            return "raised:" + type(e).__name__
        op["_touched"] = j
        stats["probe/device_mutated_in_place"] += 1
        if dev.rydberg_level != op["level"]:
            viols.append(Violation("C17/mutator", i, f"change_rydberg_level({op['level']}) left rydberg_level = {dev.rydberg_level}"))
        return "ok"
    if k == "use":
        try:
            _use(kind, obj)
            stats[f"used/{kind}"] += 1
        except Exception as e:  # noqa: BLE001
            stats[f"use_raised/{kind}/{type(e).__name__}"] += 1
            return "raised:" + type(e).__name__
        return "ok"
    if k == "restore":
        try:
            s, back = persist_restore(kind, obj)
        except Exception as e:  # noqa: BLE001
            name = type(e).__name__
            stats[f"restore_raised/{kind}/{name}"] += 1
            if name not in ("AbstractReprError", "NotImplementedError"):
                viols.append(Violation("C17/roundtrip-raised", i, f"{kind} built from {json.dumps(spec, default=str)[:200]} could not make the round trip: {name}: {str(e)[:140]}"))
            return "raised:" + name
        ok, why = equal(kind, obj, back)
        if not ok:
            viols.append(Violation("C17/roundtrip-differs", i, f"{kind} restored from its abstract representation differs from the original ({why}); built from {json.dumps(spec, default=str)[:200]}"))
            return "differs"
        stats["restored_ok"] += 1
        stats[f"restored/{kind}"] += 1
        pool.append([kind, back, fingerprint(kind, back), spec])
        return "ok"
    if k == "convert":
        if kind != "noise":
            return "skip"
        from pulser_simulation import SimConfig

        try:
            cfg = SimConfig.from_noise_model(obj)
            back = cfg.to_noise_model()
        except Exception as e:  # noqa: BLE001
            stats[f"convert_raised/{type(e).__name__}"] += 1
            return "raised:" + type(e).__name__
        stats["converted"] += 1
        if set(back.noise_types) != set(obj.noise_types):
            viols.append(Violation("C17/conversion-types", i, f"NoiseModel -> SimConfig -> NoiseModel changed the active noise types {sorted(obj.noise_types)} -> {sorted(back.noise_types)} ({spec})"))
            return "differs"
        import dataclasses

        stochastic = any(spec.get(x) for x in ("state_prep_error", "temperature", "amp_sigma"))
        for f in dataclasses.fields(obj):
            a, b = getattr(obj, f.name), getattr(back, f.name)
            if f.name in ("noise_types",):
                continue
            # only relevant parameters are claimed
            if f.name in ("runs", "samples_per_run") and not stochastic:
                continue
            if f.name in TYPE_OF and TYPE_OF[f.name] not in obj.noise_types:
                continue
            same = (a == b) if not isinstance(a, tuple) or not a or not hasattr(a[0], "shape") else all(np.array_equal(_np(x), _np(y)) for x, y in zip(a, b))
            if f.name == "eff_noise_opers":
                same = len(a) == len(b) and all(np.array_equal(_np(x), _np(y)) for x, y in zip(a, b))
            if not same:
                viols.append(Violation("C17/conversion-params", i, f"NoiseModel -> SimConfig -> NoiseModel changed {f.name}: {a!r} -> {b!r} ({spec})"))
                return "differs"
        return "ok"
    return "skip"


TYPE_OF = {
    "state_prep_error": "SPAM", "p_false_pos": "SPAM", "p_false_neg": "SPAM", "temperature": "doppler", "amp_sigma": "amplitude", "laser_waist": "amplitude",
    "relaxation_rate": "relaxation", "dephasing_rate": "dephasing", "hyperfine_dephasing_rate": "dephasing", "depolarizing_rate": "depolarizing",
    "eff_noise_rates": "eff_noise", "eff_noise_opers": "eff_noise", "with_leakage": "leakage",
}


def _check_noise_types(i, spec, obj, viols, stats):
    """Active noise types are exactly those whose parameters were set."""
    # a parameter given as 0 may or may not count as 'set'
    allowed = {TYPE_OF[k] for k in spec if k in TYPE_OF and not (k == "with_leakage" and not spec[k])}
    required = {TYPE_OF[k] for k in spec if k in TYPE_OF and spec[k] not in (0, 0.0, False, None) and k != "laser_waist"}
    got = set(obj.noise_types)
    stats["noise_types_checked"] += 1
    if not (required <= got <= allowed):
        viols.append(Violation("C17/noise-types", i, f"NoiseModel({spec}) has active types {sorted(got)}; the non-zero parameters given imply {sorted(required)}, all parameters given allow {sorted(allowed)}"))
