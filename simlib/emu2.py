"""EMU-SIM, V2 backend part: C20 (observables / results) and C11 (physicality,
measurement conventions, legacy == V2)."""
from __future__ import annotations

import hashlib
import json
import math
import random
import uuid
import warnings
from collections import Counter

import numpy as np

from . import env, gen as G, observe, ops
from .emu import EmuCtx, eigenbasis, gen_program, rebuild
from .engine import RunResult, Violation, stream

ONE = {frozenset("rg"): "r", frozenset("gh"): "h", frozenset("ud"): "d"}


# --------------------------------------------------------------- config spec
def gen_amplitudes(rng: random.Random, states: list, n: int) -> dict:
    kind = G.pick(rng, ["product", "pair", "dense"])
    if kind == "product":
        return {"".join(rng.choice(states) for _ in range(n)): 1.0}
    if kind == "pair":
        a = "".join(rng.choice(states) for _ in range(n))
        b = "".join(rng.choice(states) for _ in range(n))
        if a == b:
            return {a: 1.0}
        th = rng.random() * math.pi
        return {a: [math.cos(th), 0.0], b: [math.sin(th) * math.cos(1.0), math.sin(th) * math.sin(1.0)]}
    amps = {}
    for _ in range(min(4, len(states) ** n)):
        amps["".join(rng.choice(states) for _ in range(n))] = [rng.gauss(0, 1), rng.gauss(0, 1)]
    norm = math.sqrt(sum(abs(complex(*v)) ** 2 if isinstance(v, list) else v**2 for v in amps.values()))
    return {k: [v[0] / norm, v[1] / norm] for k, v in amps.items()}


def gen_operator(rng: random.Random, states: list, n: int) -> list:
    """FullOp as JSON: [[coeff, [[{"ij": c}, [qudits]], ...]], ...]."""
    terms = []
    for _ in range(rng.randint(1, 3)):
        qs = list(range(n))
        rng.shuffle(qs)
        k = rng.randint(1, n)
        tensor = []
        for q in qs[:k]:
            qop = {}
            for _ in range(rng.randint(1, 2)):
                a, b = rng.choice(states), rng.choice(states)
                qop[a + b] = round(rng.uniform(-1, 1), 3)
            if rng.random() < 0.5:
                # make it Hermitian-ish sometimes
                for key, c in list(qop.items()):
                    qop.setdefault(key[::-1], c)
            tensor.append([qop, [q]])
        terms.append([round(rng.uniform(-2, 2), 3), tensor])
    return terms


def gen_v2_config(rng: random.Random, states: list, n: int, T: int, profile: dict) -> dict:
    two_level = len(states) == 2
    one = ONE.get(frozenset(states))
    obs = [{"kind": "StateResult"}]
    menu = ["BitStrings", "Occupation", "CorrelationMatrix", "Energy", "EnergyVariance", "EnergySecondMoment", "Fidelity", "Expectation"]
    for kind in rng.sample(menu, rng.randint(2, 6)):
        o = {"kind": kind}
        r = rng.random()
        if r < profile.get("own_times_p", 0.35):
            o["evaluation_times"] = G.pick(rng, [[0.0, 0.5, 1.0], [1.0], [0.25, 0.75], [0.5], [0.2, 0.35, 0.7, 0.9], [0.41, 0.57, 0.83, 1.0], [0.07, 0.47, 0.69, 0.94, 0.95]])
        if kind in ("BitStrings", "Occupation", "CorrelationMatrix"):
            if not two_level or rng.random() < 0.3:
                o["one_state"] = one or G.pick(rng, [s for s in states if s != "g"] or states)
        if kind == "BitStrings":
            o["num_shots"] = G.pick(rng, [500, 2000])
        if kind == "Fidelity":
            o["amplitudes"] = gen_amplitudes(rng, states, n)
            if rng.random() < 0.4:
                # a MIXED reference state: 0.6 |phi><phi| + 0.4 |chi><chi|
                o["amplitudes2"] = gen_amplitudes(rng, states, n)
        if kind == "Expectation":
            o["operator"] = gen_operator(rng, states, n)
        obs.append(o)
        if rng.random() < 0.15 and kind in ("Occupation", "Energy"):
            o2 = dict(o, tag_suffix="b", evaluation_times=[1.0])
            obs.append(o2)
    spec = {
        "observables": obs,
        "default_evaluation_times": G.pick(rng, [[1.0], "Full", [0.0, 0.5, 1.0], [0.3, 1.0], [1.0]]),
        "sampling_rate": G.pick(rng, [1.0, 1.0, 0.5]),
        "noise": {},
    }
    if spec["default_evaluation_times"] == "Full" and T * spec["sampling_rate"] > 1200:
        # bounded runs: 'Full' on a long sequence means thousands of evaluation
        # times, each recomputed by the oracle (one such run took 40 s)
        spec["default_evaluation_times"] = [0.0, 0.5, 1.0]
    r = rng.random()
    if r < 0.45:
        pass
    elif r < 0.6:
        spec["noise"] = {"dephasing_rate": G.pick(rng, [0.05, 0.5])}
    elif r < 0.7:
        spec["noise"] = {"relaxation_rate": G.pick(rng, [0.02, 0.2])}
    elif r < 0.78:
        spec["noise"] = {"depolarizing_rate": G.pick(rng, [0.05, 0.3])}
    elif r < 0.86:
        spec["noise"] = {"p_false_pos": G.pick(rng, [0.0, 0.05]), "p_false_neg": G.pick(rng, [0.1, 0.0])}
    elif r < 0.90:
        spec["noise"] = {"state_prep_error": G.pick(rng, [0.2, 0.5]), "runs": G.pick(rng, [3, 8]), "samples_per_run": 1}
    elif r < 0.95:
        # stochastic + dissipative: averaged density matrices from mesolve
        spec["noise"] = {"state_prep_error": 0.5, "runs": 8, "samples_per_run": 1, "dephasing_rate": 0.2}
    elif r < 0.975:
        spec["noise"] = {"amp_sigma": 0.1, "laser_waist": 150.0, "runs": 2, "samples_per_run": 1}
    else:
        # Doppler shifts only: one random detuning per atom and run
        spec["noise"] = {"temperature": G.pick(rng, [1000.0, 5000.0]), "runs": G.pick(rng, [4, 8]), "samples_per_run": 1}
    if rng.random() < 0.25:
        spec["initial_amplitudes"] = gen_amplitudes(rng, states, n)
    return spec


def _c(v):
    return complex(*v) if isinstance(v, list) else complex(v)


def build_v2_config(spec: dict, states: list, n: int):
    import pulser.backend as pb
    from pulser import NoiseModel
    from pulser_simulation import QutipConfig, QutipOperator, QutipState

    obs = []
    for o in spec["observables"]:
        kw = {}
        if "evaluation_times" in o:
            kw["evaluation_times"] = o["evaluation_times"]
        if "tag_suffix" in o:
            kw["tag_suffix"] = o["tag_suffix"]
        k = o["kind"]
        if k in ("BitStrings", "Occupation", "CorrelationMatrix") and "one_state" in o:
            kw["one_state"] = o["one_state"]
        if k == "BitStrings":
            kw["num_shots"] = o["num_shots"]
        if k == "Fidelity":
            st = QutipState.from_state_amplitudes(eigenstates=tuple(states), amplitudes={a: _c(v) for a, v in o["amplitudes"].items()})
            if "amplitudes2" in o:
                import qutip

                phi = amplitudes_vector(o["amplitudes"], states, n)
                chi = amplitudes_vector(o["amplitudes2"], states, n)
                ref = 0.6 * np.outer(phi, phi.conj()) + 0.4 * np.outer(chi, chi.conj())
                dims = st.to_qobj().dims[0]
                st = QutipState(qutip.Qobj(ref, dims=[dims, dims]), eigenstates=tuple(states))
            obs.append(pb.Fidelity(st, **kw))
            continue
        if k == "Expectation":
            op = QutipOperator.from_operator_repr(eigenstates=tuple(states), n_qudits=n, operations=[(c, [(q, set(qs)) for q, qs in t]) for c, t in o["operator"]])
            obs.append(pb.Expectation(op, **kw))
            continue
        obs.append(getattr(pb, k)(**kw))
    kwargs = dict(observables=obs, default_evaluation_times=spec["default_evaluation_times"], sampling_rate=spec["sampling_rate"])
    if spec.get("with_modulation"):
        kwargs["with_modulation"] = True
    if spec["noise"]:
        kwargs["noise_model"] = NoiseModel(**spec["noise"])
    if "initial_amplitudes" in spec:
        kwargs["initial_state"] = QutipState.from_state_amplitudes(eigenstates=tuple(states), amplitudes={a: _c(v) for a, v in spec["initial_amplitudes"].items()})
    return QutipConfig(**kwargs)


# ------------------------------------------------------------- numpy references
def site(mat, i, n, d):
    out = np.array([[1.0 + 0j]])
    for k in range(n):
        out = np.kron(out, mat if k == i else np.eye(d))
    return out


def ketbra(states, a, b):
    d = len(states)
    m = np.zeros((d, d), dtype=complex)
    m[states.index(a), states.index(b)] = 1.0
    return m


def operator_matrix(full_op, states, n):
    d = len(states)
    tot = np.zeros((d**n, d**n), dtype=complex)
    for coeff, tensor in full_op:
        per = {}
        for qop, qs in tensor:
            m = np.zeros((d, d), dtype=complex)
            for key, c in qop.items():
                m += c * ketbra(states, key[0], key[1])
            for q in qs:
                per[q] = m
        term = np.array([[1.0 + 0j]])
        for k in range(n):
            term = np.kron(term, per.get(k, np.eye(d)))
        tot += coeff * term
    return tot


def amplitudes_vector(amps, states, n):
    d = len(states)
    v = np.zeros(d**n, dtype=complex)
    for key, a in amps.items():
        idx = 0
        for s in key:
            idx = idx * d + states.index(s)
        v[idx] += _c(a)
    return v


def to_rho(qobj):
    m = np.asarray(qobj.full())
    if m.shape[1] == 1:
        return m @ m.conj().T, True
    return m, False


# -------------------------------------------------------------------- the run
def run_v2(prop: str, seed: int, run: int, profile: dict, doc=None) -> RunResult:
    from pulser_simulation import QutipBackendV2

    env.fresh_run_state()
    observe.reset_run_caches()
    if doc is None:
        world, prog = gen_program(seed, prop, run, dict(profile, slm_p=0.1))
        cfg_spec = None
    else:
        world, prog, cfg_spec = doc["world"], doc["trace"], doc["world"].get("v2_config")
    ctx = EmuCtx(world, prog, profile)
    snap = ctx.snap
    stats = ctx.stats
    T = max([c.end for c in snap.channels.values()] or [0])
    n = len(world["register"]["ids"])
    states = eigenbasis(snap)
    trace = list(prog)
    h = hashlib.blake2b(digest_size=12)
    nontrivial = False
    if snap.channels and T >= 16 and not snap.parametrized:
        if cfg_spec is None:
            frng = stream(seed, prop, run, "faults")
            cfg_spec = gen_v2_config(frng, states, n, T, profile)
            if any(cs.obj.mod_bandwidth for cs in snap.channels.values()) and not snap.flags["slm_targets"] and frng.random() < 0.25:
                # emulate the modulated output: the emulated duration then exceeds the
                # programmed one, and relative times refer to the emulated duration
                cfg_spec["with_modulation"] = True
        world = dict(world, v2_config=cfg_spec)
        cnt = [0]

        def fake_uuid():
            cnt[0] += 1
            return uuid.UUID(int=(seed * 1000003 + run) * 1000 + cnt[0])

        orig = uuid.uuid4
        uuid.uuid4 = fake_uuid
        try:
            with warnings.catch_warnings():
                warnings.simplefilter("ignore")
                nontrivial = _one(ctx, cfg_spec, states, n, T, seed, run, profile)
        finally:
            uuid.uuid4 = orig
        h.update(json.dumps(cfg_spec, sort_keys=True, default=str).encode())
        h.update(repr(sorted(stats.items())).encode())
    stats["steps"] = len(trace) + 1
    prefix = profile.get("only_prefix")
    vs = [v for v in ctx.violations if not prefix or v.oracle.startswith(prefix)]
    return RunResult(
        world=world,
        trace=trace,
        violations=vs,
        stats=stats,
        digest=h.hexdigest(),
        sim_ns=T,
        n_steps=len(trace),
        ilv_sig=hashlib.blake2b(json.dumps([o.get("kind") for o in (cfg_spec or {}).get("observables", [])]).encode(), digest_size=8).hexdigest(),
        state_sigs=frozenset(),
        nontrivial=nontrivial,
        trace_sig=hashlib.blake2b(json.dumps([world["register"], [r["op"] for r in trace], cfg_spec], sort_keys=True, default=str).encode(), digest_size=8).hexdigest(),
    )


def _requested(o_spec, default, grid):
    own = o_spec.get("evaluation_times")
    if own is not None:
        return list(own)
    return list(grid) if default == "Full" else list(default)


def _one(ctx, spec, states, n, T, seed, run, profile) -> bool:
    from pulser import NoiseModel
    from pulser_simulation import QutipBackendV2, QutipEmulator, SimConfig

    stats = ctx.stats
    seq = ctx.seq
    d = len(states)
    np.random.seed((seed * 7919 + run) % (2**32))
    # ---------------------------------------------------------- construction
    try:
        cfg = build_v2_config(spec, states, n)
    except Exception as e:  # noqa: BLE001
        stats[f"config_refused/{type(e).__name__}"] += 1
        return False
    stochastic = any(k in spec["noise"] for k in ("state_prep_error", "amp_sigma", "temperature"))
    dissipative = any(k in spec["noise"] for k in ("dephasing_rate", "relaxation_rate", "depolarizing_rate"))
    v2_err = None
    try:
        backend = QutipBackendV2(seq, config=cfg)
    except Exception as e:  # noqa: BLE001
        v2_err = e
        backend = None
    # legacy twin with the same request (accept / refuse class)
    nm = NoiseModel(**spec["noise"]) if spec["noise"] else NoiseModel()
    leg_err = None
    legacy = None
    try:
        legacy = QutipEmulator.from_sequence(seq, sampling_rate=spec["sampling_rate"], config=SimConfig.from_noise_model(nm), with_modulation=bool(spec.get("with_modulation")))
    except Exception as e:  # noqa: BLE001
        leg_err = e
    if v2_err is not None:
        stats[f"v2_refused/{type(v2_err).__name__}"] += 1
        if leg_err is None:
            ctx.viol("C11/v2-refuses-what-legacy-accepts", 0, f"QutipBackendV2(...) raised {type(v2_err).__name__}: {str(v2_err)[:140]} while the legacy emulator accepts the same sequence and configuration")
        return False
    if leg_err is not None:
        ctx.viol("C11/legacy-refuses-what-v2-accepts", 0, f"legacy emulator raised {type(leg_err).__name__}: {str(leg_err)[:140]} while QutipBackendV2 accepts the same request")
        return False
    try:
        res = backend.run()
    except Exception as e:  # noqa: BLE001
        stats[f"v2_run_raised/{type(e).__name__}"] += 1
        # does the legacy emulator serve the same request?
        try:
            np.random.seed(1)
            legacy.set_evaluation_times(cfg._get_legacy_evaluation_times(backend._sim_obj.total_duration_ns))
            if "initial_amplitudes" in spec:
                legacy.set_initial_state(cfg.initial_state.to_qobj())
            legacy.run()
            legacy_ok = True
        except Exception:  # noqa: BLE001
            legacy_ok = False
        if legacy_ok:
            ctx.viol("C11/v2-run-fails-where-legacy-runs", 0, f"QutipBackendV2.run() raised {type(e).__name__}: {str(e)[:120]} while the legacy emulator runs the same sequence and configuration")
            if type(e).__name__ != "IntegratorException":
                ctx.viol("C20/run-raised", 0, f"QutipBackendV2.run() raised {type(e).__name__}: {str(e)[:160]} (noise {spec['noise']}, {d}-level basis {states})")
        else:
            stats["both_refuse_run"] += 1
        return False
    stats["v2_runs"] += 1
    # ------------------------------------------------------------ bookkeeping
    # the emulator's own time grid (relative)
    sim = backend._sim_obj
    if spec.get("with_modulation"):
        T = int(sim.total_duration_ns)  # the emulated (modulated) duration
        stats["probe/with_modulation"] += 1
    grid_idx = np.linspace(0, T - 1, int(spec["sampling_rate"] * T), dtype=int)
    grid = [float(t) / (sim.total_duration_ns * 1e-3) for t in sim.sampling_times]
    tol = 0.5 / T
    default = spec["default_evaluation_times"]
    own_all = sorted({x for o in spec["observables"] for x in (o.get("evaluation_times") or [])})
    # requested instants (of ANY observable, or the default list) less than 1 ns
    # apart are below the emulator's resolution: its documented matching
    # tolerance of half a nanosecond then assigns one instant to two requests,
    # which the statement ("one value per requested evaluation time") does not
    # settle; counted, not judged
    req_all = sorted(set(own_all) | (set() if default == "Full" else set(default)))
    below_res = any(0 < b - a < 1.0 / T for a, b in zip(req_all, req_all[1:]))
    if below_res:
        stats["runs_with_requested_times_below_1ns_resolution"] += 1
    by_tag = {}
    for o_spec, o in zip(spec["observables"], cfg.observables):
        by_tag[o.tag] = (o_spec, o)
        own = o_spec.get("evaluation_times")
        try:
            times = res.get_result_times(o)
        except Exception as e:  # noqa: BLE001
            ctx.viol("C20/times-missing-or-unordered", 0, f"{o.tag}: no results stored ({type(e).__name__}) although times were requested (own {own}, default {default})")
            continue
        if any(b <= a for a, b in zip(times, times[1:])):
            ctx.viol("C20/times-missing-or-unordered", 0, f"{o.tag}: stored times are not strictly ascending: {times[:8]}")
        if default == "Full":
            # every step of the emulation: the emulator's sampling grid plus
            # the explicitly requested times of any observable
            want = sorted(set(grid) | set(own_all))
            mtol = 1e-9
        else:
            want = list(own) if own is not None else list(default)
            mtol = tol
        # one-to-one: a stored time belongs to the NEAREST requested time (two
        # requested times can be closer to each other than the matching tolerance
        # 0.5/T of a very short sequence)
        nearest = {}
        for t in times:
            if want:
                w0 = min(want, key=lambda w: abs(t - w))
                if abs(t - w0) <= mtol:
                    nearest.setdefault(w0, []).append(t)
        for w in want:
            hits = nearest.get(w, [])
            if len(hits) != 1 and not (below_res and len(hits) >= 1):
                oid = "C20/times-full-grid" if default == "Full" else "C20/times-missing-or-unordered"
                ctx.viol(oid, 0, f"{o.tag}: requested time {w} has {len(hits)} stored values (stored {[float(x) for x in times[:10]]}, T={T}, default {default}, own {own})")
                break
        allowed = list(want) + ([] if default == "Full" else list(default))
        extra = [t for t in times if not any(abs(t - a) <= mtol for a in allowed)]
        if extra:
            oid = "C20/times-full-grid" if default == "Full" else "C20/times-extra"
            ctx.viol(oid, 0, f"{o.tag}: values stored at times nobody requested: {[float(x) for x in extra[:5]]} (default {default}, own {own})")
        own_only_extra = [t for t in times if not any(abs(t - a) <= tol for a in (own or []))]
        if own_only_extra and own is not None and default != "Full":
            stats["probe/own_times_also_evaluated_at_default_times"] += 1
        # what the accessors hand out is the caller's: editing it must not edit the Results
        try:
            handed = [res.get_result_times(o), res.get_tagged_results()[o.tag], getattr(res, o.tag)]
            before = ([float(x) for x in handed[0]], len(handed[1]), len(handed[2]))
            for lst in handed:
                if isinstance(lst, list) and lst:
                    lst.reverse()
                    lst.pop()
            after = ([float(x) for x in res.get_result_times(o)], len(res.get_tagged_results()[o.tag]), len(getattr(res, o.tag)))
            stats["accessor_lists_tampered"] += 1
            if after != before:
                ctx.viol("C20/retrieval-aliasing", 0, f"{o.tag}: editing the lists returned by get_result_times / get_tagged_results / the tag attribute changed the stored results: times+lengths {before} -> {after}")
                return False
        except Exception as e:  # noqa: BLE001
            ctx.viol("C20/retrieval", 0, f"{o.tag}: retrieval raised {type(e).__name__}: {str(e)[:100]}")
            return False
        # retrieval by observable / tag / attribute agree
        try:
            tagged = res.get_tagged_results()[o.tag]
            attr = getattr(res, o.tag)
            for k, t in enumerate(times):
                a = res.get_result(o, t)
                b = res.get_result(o.tag, t)
                if not (_same(a, b) and _same(a, tagged[k]) and _same(a, attr[k])):
                    ctx.viol("C20/retrieval", 0, f"{o.tag}: get_result by observable / by tag / tagged results / attribute disagree at t={t}")
                    break
        except Exception as e:  # noqa: BLE001
            ctx.viol("C20/retrieval", 0, f"{o.tag}: retrieval raised {type(e).__name__}: {str(e)[:100]}")
    if ctx.violations:
        return False
    # ------------------------------------------------------------- values
    st_times = res.get_result_times("state")
    interior = sum(1 for t in st_times if 0.0 < t < 1.0)
    # The solver returns un-normalised states; with its default tolerances the
    # norm drifts by about 9e-6 per radian of accumulated phase (measured on the
    # unchanged tree: 2 atoms, U = 1e1..1e4 rad/us, 0.3 and 1 us). The budget
    # below is that slope with a 4x margin, on a bound of the energy scale.
    try:
        e_bound = max(float(np.abs(legacy.get_hamiltonian(int(tt), noiseless=True).full()).sum(axis=1).max()) for tt in np.linspace(0, max(T - 1, 0), 5))
    except Exception:  # noqa: BLE001
        e_bound = 0.0
    trace_tol = 5e-3 + 4e-5 * e_bound * T * 1e-3
    stats["max_trace_tol_e6"] = max(stats["max_trace_tol_e6"], int(trace_tol * 1e6))
    mixed = False
    for t in st_times:
        qs = res.get_result("state", t)
        rho, pure = to_rho(qs.to_qobj())
        mixed = mixed or not pure
        tr = np.trace(rho).real
        stats["max_norm_error_e6"] = max(stats["max_norm_error_e6"], int(abs(tr - 1.0) * 1e6))
        # ---- C11 physicality
        if abs(tr - 1.0) > trace_tol:
            ctx.viol("C11/trace", 0, f"state at t={t} has trace/norm {tr!r} (noise {spec['noise']})")
            return False
        if np.abs(rho - rho.conj().T).max() > 1e-6:  # the ODE solver works to atol 1e-8 per component and step
            ctx.viol("C11/not-hermitian", 0, f"density matrix at t={t} is not Hermitian (max |rho - rho^dagger| = {np.abs(rho - rho.conj().T).max():.3g})")
            return False
        if np.linalg.eigvalsh((rho + rho.conj().T) / 2).min() < -1e-4:
            ctx.viol("C11/not-positive", 0, f"density matrix at t={t} has eigenvalue {np.linalg.eigvalsh(rho).min()!r}")
            return False
        if not dissipative and not stochastic and not pure:
            ctx.viol("C11/not-pure", 0, f"noise-free emulation returned a mixed state at t={t}")
            return False
        H = np.asarray(sim.get_hamiltonian(t * sim.total_duration_ns, noiseless=True).full())
        for tag, (o_spec, o) in by_tag.items():
            try:
                ts = res.get_result_times(o)
            except Exception:  # noqa: BLE001
                continue
            hit = [x for x in ts if abs(x - t) <= 1e-12]
            if not hit:
                continue
            val = res.get_result(o, hit[0])
            k = o_spec["kind"]
            one = o_spec.get("one_state") or ONE.get(frozenset(states))
            exp = None
            if k == "Occupation":
                nop = ketbra(states, one, one)
                exp = [np.trace(rho @ site(nop, i, n, d)).real for i in range(n)]
            elif k == "CorrelationMatrix":
                nop = ketbra(states, one, one)
                exp = [[np.trace(rho @ site(nop, i, n, d) @ site(nop, j, n, d)).real for j in range(n)] for i in range(n)]
            elif k == "Energy":
                exp = np.trace(rho @ H).real
            elif k == "EnergySecondMoment":
                exp = np.trace(rho @ H @ H).real
            elif k == "EnergyVariance":
                exp = np.trace(rho @ H @ H).real - np.trace(rho @ H).real ** 2
            elif k == "Fidelity":
                phi = amplitudes_vector(o_spec["amplitudes"], states, n)
                exp = (phi.conj() @ rho @ phi).real
                if "amplitudes2" in o_spec:
                    chi = amplitudes_vector(o_spec["amplitudes2"], states, n)
                    exp = 0.6 * exp + 0.4 * (chi.conj() @ rho @ chi).real
                    stats["probe/fidelity_mixed_reference" + ("_mixed_state" if not pure else "")] += 1
            elif k == "Expectation":
                exp = np.trace(rho @ operator_matrix(o_spec["operator"], states, n))
            if exp is not None:
                got = np.asarray(val, dtype=complex)
                ex = np.asarray(exp, dtype=complex)
                stats[f"values_checked/{k}/{'mixed' if not pure else 'pure'}/{d}-level"] += 1
                if got.shape != ex.shape or np.abs(got - ex).max() > 1e-7 * max(1.0, np.abs(ex).max()):
                    ctx.viol(f"C20/value-{k}", 0, f"{tag} at t={t}: stored {np.round(got, 8).tolist()!r}, definition on the stored state gives {np.round(ex, 8).tolist()!r} ({'mixed' if not pure else 'pure'} state, basis {states})")
                    return False
            elif k == "BitStrings":
                probs_one = [np.trace(rho @ site(ketbra(states, one, one), i, n, d)).real for i in range(n)]
                shots = o_spec["num_shots"]
                tot = sum(val.values())
                if tot != shots:
                    ctx.viol("C20/bitstrings-count", 0, f"{tag} at t={t}: {tot} shots stored, {shots} requested")
                    return False
                fp = spec["noise"].get("p_false_pos", 0.0)
                fn = spec["noise"].get("p_false_neg", 0.0)
                for i in range(n):
                    f = sum(c for bs, c in val.items() if bs[i] == "1") / shots
                    p = probs_one[i] * (1 - fn) + (1 - probs_one[i]) * fp
                    from scipy.stats import binom

                    k1 = int(round(f * shots))
                    pp = min(max(p, 0.0), 1.0)
                    # exact two-sided binomial tail (the normal approximation
                    # fails near p = 0 or 1); 1e-10 ~ 6.4 sigma
                    pval = min(binom.cdf(k1, shots, pp), binom.sf(k1 - 1, shots, pp))
                    stats["bit_marginals_checked"] += 1
                    if pval < 1e-10:
                        ctx.viol("C20/bitstrings-distribution", 0, f"{tag} at t={t}: atom {i} measured 1 in {k1} of {shots} shots, the state gives probability {pp:.6f} (binomial tail {pval:.2e}, basis {states}, one state {one})")
                        return False
                if any(len(bs) != n for bs in val):
                    ctx.viol("C20/bitstrings-length", 0, f"{tag}: bitstrings do not have one bit per atom")
                    return False
                if n <= 3:
                    # the JOINT distribution: ideal outcome probabilities from the
                    # diagonal of rho, then independent per-bit detection errors
                    from scipy.stats import binom

                    diag = np.real(np.diag(rho))
                    one_idx = states.index(one)
                    ideal = {}
                    for idx, pr in enumerate(diag):
                        bits, x = [], idx
                        for _ in range(n):
                            bits.append("1" if x % d == one_idx else "0")
                            x //= d
                        b = "".join(reversed(bits))
                        ideal[b] = ideal.get(b, 0.0) + max(pr, 0.0)
                    joint = {}
                    for b, pb in ideal.items():
                        for m in range(2**n):
                            b2 = format(m, f"0{n}b")
                            w = pb
                            for x, y in zip(b, b2):
                                w *= ((1 - fn) if y == "1" else fn) if x == "1" else (fp if y == "1" else (1 - fp))
                            joint[b2] = joint.get(b2, 0.0) + w
                    for b2, pj in joint.items():
                        kj = val.get(b2, 0)
                        pj = min(max(pj, 0.0), 1.0)
                        pval = min(binom.cdf(kj, shots, pj), binom.sf(kj - 1, shots, pj))
                        stats["bit_joint_outcomes_checked"] += 1
                        if pval < 1e-10 / 2**n:
                            msg = f"{tag} at t={t}: outcome {b2} seen {kj} times in {shots} shots, the state and independent detection errors (p_false_pos={fp}, p_false_neg={fn}) give probability {pj:.6f} (binomial tail {pval:.2e})"
                            if fp or fn:
                                ctx.viol("C11/detection-errors", 0, msg)
                            ctx.viol("C20/bitstrings-distribution", 0, msg)
                            return False
                    if fp or fn:
                        stats["probe/joint_distribution_under_detection_errors"] += 1
    # --------------------------- C11: stochastic noise means several trajectories
    if stochastic and legacy is not None and spec["noise"].get("runs", 1) >= 2 and "initial_amplitudes" not in spec and T <= 700:
        # With per-run random noise both emulators must average over the requested
        # runs: the legacy one then returns sampled (Noisy) results, never the
        # pure state of a single random trajectory.
        try:
            np.random.seed(seed * 7919 + run)
            lres = legacy.run()
            single = type(lres).__name__ == "CoherentResults"
        except Exception as e:  # noqa: BLE001
            stats[f"legacy_stochastic_raised/{type(e).__name__}"] += 1
            single = False
        stats["probe/legacy_stochastic_run"] += 1
        if single:
            ctx.viol("C11/legacy-single-trajectory", 0, f"with stochastic noise {spec['noise']} the legacy emulator returned the coherent result of ONE random trajectory although {spec['noise']['runs']} runs were requested (the V2 backend averages them)")
            return False
    # ------------------------------------------------- C11: legacy == V2 states
    if not stochastic and legacy is not None:
        try:
            legacy.set_evaluation_times(cfg._get_legacy_evaluation_times(sim.total_duration_ns))
            if "initial_amplitudes" in spec:
                legacy.set_initial_state(cfg.initial_state.to_qobj())
            lres = legacy.run()
            ltimes = [r.evaluation_time for r in lres]
            for t in st_times:
                j = [k for k, x in enumerate(ltimes) if abs(x - t) <= 1e-9]
                if not j:
                    ctx.viol("C11/legacy-v2-times", 0, f"V2 stored a state at t={t} that the legacy emulator does not report (legacy times {ltimes[:6]})")
                    return False
                a, _ = to_rho(lres[j[0]].state)
                b, _ = to_rho(res.get_result("state", t).to_qobj())
                if np.abs(a - b).max() > 2e-4:
                    ctx.viol("C11/legacy-v2-states", 0, f"legacy and V2 states differ at t={t} by {np.abs(a - b).max():.3g}")
                    return False
            stats["probe/legacy_v2_compared"] += 1
        except Exception as e:  # noqa: BLE001
            ctx.viol("C11/legacy-run-raised", 0, f"legacy emulator refused the request the V2 backend served: {type(e).__name__}: {str(e)[:140]}")
            return False
    if mixed:
        stats["probe/mixed_state_values"] += 1
    if d == 3:
        stats["probe/three_level_values"] += 1
    # ----------------------------------------- operator / state algebra (C20)
    _algebra(ctx, spec, states, n)
    return mixed or d == 3 or interior >= 2


def _same(a, b) -> bool:
    try:
        if hasattr(a, "to_qobj"):
            return np.abs(a.to_qobj().full() - b.to_qobj().full()).max() < 1e-12
        if isinstance(a, (dict, Counter)):
            return dict(a) == dict(b)
        return np.allclose(np.asarray(a, dtype=complex), np.asarray(b, dtype=complex), rtol=0, atol=1e-12)
    except Exception:  # noqa: BLE001
        return a == b


def _algebra(ctx, spec, states, n):
    from pulser_simulation import QutipOperator, QutipState

    ops_ = [o["operator"] for o in spec["observables"] if o["kind"] == "Expectation"]
    amps = [o["amplitudes"] for o in spec["observables"] if o["kind"] == "Fidelity"]
    if "initial_amplitudes" in spec:
        amps.append(spec["initial_amplitudes"])
    if not ops_:
        return
    mk = lambda fo: QutipOperator.from_operator_repr(eigenstates=tuple(states), n_qudits=n, operations=[(c, [(q, set(qs)) for q, qs in t]) for c, t in fo])  # noqa: E731
    A_, Am = mk(ops_[0]), operator_matrix(ops_[0], states, n)
    if np.abs(np.asarray(A_.to_qobj().full()) - Am).max() > 1e-12:
        ctx.viol("C20/operator-construction", 0, f"operator built from its representation differs from the tensor-product construction by {np.abs(np.asarray(A_.to_qobj().full()) - Am).max():.3g}: {ops_[0]}")
        return
    ctx.stats["probe/operator_construction_checked"] += 1
    B_, Bm = (mk(ops_[1]), operator_matrix(ops_[1], states, n)) if len(ops_) > 1 else (A_, Am)
    checks = [
        ("add", (A_ + B_).to_qobj().full(), Am + Bm),
        ("rmul", (2.5 * A_).to_qobj().full(), 2.5 * Am),
        ("matmul", (A_ @ B_).to_qobj().full(), Am @ Bm),
    ]
    if amps:
        v = amplitudes_vector(amps[0], states, n)
        S = QutipState.from_state_amplitudes(eigenstates=tuple(states), amplitudes={a: _c(x) for a, x in amps[0].items()})
        sv = np.asarray(S.to_qobj().full()).reshape(-1)
        checks.append(("state-construction", sv, v))
        checks.append(("apply_to", np.asarray(A_.apply_to(S).to_qobj().full()).reshape(-1), Am @ v))
        checks.append(("expect", np.asarray(A_.expect(S)), v.conj() @ Am @ v))
        # application to a MIXED state, with a non-Hermitian operator: O rho O^dagger
        import qutip

        w = np.zeros_like(v)
        w[-1] = 1.0
        rho = 0.6 * np.outer(v, v.conj()) + 0.4 * np.outer(w, w.conj())
        dims = S.to_qobj().dims[0]
        R = QutipState(qutip.Qobj(rho, dims=[dims, dims]), eigenstates=tuple(states))
        C_, Cm = (0.3 + 0.7j) * (A_ @ B_) + A_, (0.3 + 0.7j) * (Am @ Bm) + Am
        checks.append(("apply_to-mixed", np.asarray(C_.apply_to(R).to_qobj().full()), Cm @ rho @ Cm.conj().T))
        checks.append(("expect-mixed", np.asarray(C_.expect(R)), np.trace(Cm @ rho)))
        ctx.stats["probe/algebra_mixed_state"] += 1
    for name, got, exp in checks:
        if np.abs(np.asarray(got) - np.asarray(exp)).max() > 1e-10:
            ctx.viol(f"C20/algebra-{name}", 0, f"{name} on operators/states of the run differs from the matrix computation by {np.abs(np.asarray(got) - np.asarray(exp)).max():.3g}")
            return
    ctx.stats["probe/algebra_checked"] += 1
