"""Concrete, JSON-encodable operations and how they are issued on a Sequence.

An op is a dict with key "op" and concrete arguments. `issue(sut, op)` performs
it on the system under test and returns an Outcome. Nothing here draws random
numbers or judges anything.
"""
from __future__ import annotations

import json
import warnings
from dataclasses import dataclass
from typing import Any

import numpy as np


# ---------------------------------------------------------------- waveforms
def build_wf(spec: dict):
    import pulser.waveforms as wf

    k = spec["w"]
    if k == "const":
        return wf.ConstantWaveform(spec["d"], spec["v"])
    if k == "ramp":
        return wf.RampWaveform(spec["d"], spec["a"], spec["b"])
    if k == "blackman":
        return wf.BlackmanWaveform(spec["d"], spec["area"])
    if k == "kaiser":
        return wf.KaiserWaveform(spec["d"], spec["area"], spec.get("beta", 14.0))
    if k == "interp":
        if "interp1d_kind" in spec:
            return wf.InterpolatedWaveform(spec["d"], spec["values"], interpolator="interp1d", kind=spec["interp1d_kind"])
        return wf.InterpolatedWaveform(spec["d"], spec["values"])
    if k == "custom":
        return wf.CustomWaveform(spec["samples"])
    if k == "composite":
        return wf.CompositeWaveform(*[build_wf(p) for p in spec["parts"]])
    raise ValueError(f"unknown waveform spec {k}")


def wf_duration(spec: dict) -> int:
    k = spec["w"]
    if k == "custom":
        return len(spec["samples"])
    if k == "composite":
        return sum(wf_duration(p) for p in spec["parts"])
    return spec["d"]


def build_pulse(spec: dict):
    from pulser import Pulse

    if spec.get("ctor") == "arbitrary_phase":
        # the same pulse through the other constructor: a constant phase waveform
        # means zero detuning and that constant phase offset
        import pulser.waveforms as wf

        d = wf_duration(spec["amp"])
        return Pulse.ArbitraryPhase(build_wf(spec["amp"]), wf.ConstantWaveform(d, spec["phase"]), post_phase_shift=spec.get("pps", 0.0))
    return Pulse(
        build_wf(spec["amp"]),
        build_wf(spec["det"]),
        spec["phase"],
        spec.get("pps", 0.0),
    )


# ------------------------------------------------------------------ outcome
@dataclass
class Outcome:
    status: str  # "ok" | "raised"
    value: Any = None
    exc_type: str | None = None
    exc_msg: str | None = None
    warnings: tuple = ()

    @property
    def ok(self) -> bool:
        return self.status == "ok"

    def brief(self) -> str:
        return "ok" if self.ok else f"raised:{self.exc_type}"


class SUT:
    """Holds the live sequence (replaced on restarts) and its world."""

    def __init__(self, world: dict):
        from pulser import Sequence

        from . import world as W

        self.world = world
        self.world0 = world
        self.call_style = world.get("call_style")
        self.log: list = []  # successful mutating / restart ops, in order
        self.device = W.build_device(world["device"])
        self.register = W.build_register(world["register"])
        self.seq = Sequence(self.register, self.device)
        self.vars: dict[str, Any] = {}
        self.restarts = 0


MUTATING = {
    "declare_channel",
    "config_detuning_map",
    "config_slm_mask",
    "set_magnetic_field",
    "target",
    "target_index",
    "add",
    "add_dmm_detuning",
    "delay",
    "align",
    "phase_shift",
    "phase_shift_index",
    "enable_eom_mode",
    "modify_eom_setpoint",
    "add_eom_pulse",
    "disable_eom_mode",
    "measure",
    "declare_variable",
    "add_var",
    "delay_var",
    "add_eom_pulse_var",
    "enable_eom_var",
}

OBSERVER = {
    "obs_roundtrip",
    "obs_str",
    "obs_sample",
    "obs_duration",
    "obs_estimate",
    "obs_phase_ref",
    "obs_props",
    "obs_abstract",
    "obs_legacy",
    "obs_draw",
}

RESTART = {
    "switch_device",
    "switch_register",
    "restart_abstract",
    "restart_legacy",
    "restart_build",
    "restart_switch_register",
    "restart_switch_device_same",
}

CACHE = {"cache_clear", "cache_shrink"}

# "fork": rebuild an independent copy of the sequence from the log of successful
# calls, run a prelude of valid calls and then one call that is expected to be
# refused, all on the copy. Read-only for the sequence under test.
FORK = {"fork"}


_SIGS: dict = {}


def _styled(sut: "SUT", name: str, required: list, optional: list):
    """Call seq.<name> with the run's call style: 'default' (required arguments
    positional, optional ones by keyword), 'kw' (everything by keyword) or 'pos'
    (everything positional, intermediate optional arguments filled with their
    defaults). The scheduled result must not depend on it; what the sequence
    RECORDS does, and serialisers / device switches replay that record."""
    import inspect

    seq = sut.seq
    style = getattr(sut, "call_style", None) or "default"
    fn = getattr(seq, name)
    if style == "kw":
        return fn(**dict(required), **dict(optional))
    if style == "pos" and optional:
        sig = _SIGS.get(name)
        if sig is None:
            sig = _SIGS[name] = inspect.signature(getattr(type(seq), name))
        given = dict(optional)
        names = [p for p in list(sig.parameters)[1 + len(required):]]
        last = max(names.index(k) for k in given)
        extra = [given[k] if k in given else sig.parameters[k].default for k in names[: last + 1]]
        return fn(*[v for _, v in required], *extra)
    return fn(*[v for _, v in required], **dict(optional))


def _detuning_map(sut: SUT, weights: dict, slug=None):
    # a replay document stores the weights through JSON, which turns integer
    # qubit ids into strings: key them by the register's own ids again
    byid = {str(k): v for k, v in weights.items()}
    ids = list(sut.register.qubit_ids)
    if all(str(q) in byid for q in ids) and len(byid) == len(ids):
        weights = {q: byid[str(q)] for q in ids}
    return sut.register.define_detuning_map(weights, slug) if slug is not None else sut.register.define_detuning_map(weights)


def _do(sut: SUT, op: dict) -> Any:
    from pulser import Sequence

    seq = sut.seq
    k = op["op"]
    if k == "declare_channel":
        opt = [("initial_target", op["initial_target"])] if op.get("initial_target") is not None else []
        return _styled(sut, "declare_channel", [("name", op["name"]), ("channel_id", op["channel_id"])], opt)
    if k == "config_detuning_map":
        return _styled(sut, "config_detuning_map", [("detuning_map", _detuning_map(sut, op["weights"], op.get("slug"))), ("dmm_id", op["dmm_id"])], [])
    if k == "config_slm_mask":
        return _styled(sut, "config_slm_mask", [("qubits", op["qubits"])], [("dmm_id", op["dmm_id"])] if "dmm_id" in op else [])
    if k == "set_magnetic_field":
        return seq.set_magnetic_field(*op["b"])
    if k == "target":
        return _styled(sut, "target", [("qubits", op["qubits"]), ("channel", op["ch"])], [])
    if k == "target_index":
        return _styled(sut, "target_index", [("qubits", op["qubits"]), ("channel", op["ch"])], [])
    if k == "add":
        pulse = build_pulse(op["pulse"])
        if "protocol" in op and getattr(sut, "call_style", None) is None:
            return seq.add(pulse, op["ch"], op["protocol"])
        return _styled(sut, "add", [("pulse", pulse), ("channel", op["ch"])], [("protocol", op["protocol"])] if "protocol" in op else [])
    if k == "add_dmm_detuning":
        w = build_wf(op["wf"])
        if "protocol" in op and getattr(sut, "call_style", None) is None:
            return seq.add_dmm_detuning(w, op["ch"], op["protocol"])
        return _styled(sut, "add_dmm_detuning", [("waveform", w), ("dmm_name", op["ch"])], [("protocol", op["protocol"])] if "protocol" in op else [])
    if k == "delay":
        return _styled(sut, "delay", [("duration", op["d"]), ("channel", op["ch"])], [("at_rest", op["at_rest"])] if "at_rest" in op else [])
    if k == "align":
        if "at_rest" in op:
            return seq.align(*op["chs"], at_rest=op["at_rest"])
        return seq.align(*op["chs"])
    if k == "phase_shift":
        return seq.phase_shift(op["phi"], *op["targets"], basis=op["basis"])
    if k == "phase_shift_index":
        return seq.phase_shift_index(
            op["phi"], *op["targets"], basis=op["basis"]
        )
    if k in ("enable_eom_mode", "modify_eom_setpoint"):
        opt = []
        if "opt_off" in op:
            opt.append(("optimal_detuning_off", op["opt_off"]))
        if "cpd" in op:
            opt.append(("correct_phase_drift", op["cpd"]))
        return _styled(sut, k, [("channel", op["ch"]), ("amp_on", op["amp_on"]), ("detuning_on", op["det_on"])], opt)
    if k == "add_eom_pulse":
        opt = []
        for a, b in (
            ("pps", "post_phase_shift"),
            ("protocol", "protocol"),
            ("cpd", "correct_phase_drift"),
        ):
            if a in op:
                opt.append((b, op[a]))
        return _styled(sut, "add_eom_pulse", [("channel", op["ch"]), ("duration", op["d"]), ("phase", op["phase"])], opt)
    if k == "disable_eom_mode":
        return _styled(sut, "disable_eom_mode", [("channel", op["ch"])], [("correct_phase_drift", op["cpd"])] if "cpd" in op else [])
    if k == "measure":
        return _styled(sut, "measure", [("basis", op["basis"])], [])
    if k == "declare_variable":
        v = seq.declare_variable(op["name"], dtype=int if op.get("int") else float)
        sut.vars[op["name"]] = v
        return None
    if k == "add_var":
        # a pulse whose amplitude is a variable expression
        from pulser import Pulse

        v = _get_var(sut, op)
        pulse = Pulse.ConstantPulse(op["d"], v, 0.0, 0.0)
        return seq.add(pulse, op["ch"])
    if k == "delay_var":
        v = _get_var(sut, op)
        return seq.delay(v, op["ch"])
    if k == "add_eom_pulse_var":
        v = _get_var(sut, op)
        return seq.add_eom_pulse(op["ch"], v, op.get("phase", 0.0))
    if k == "enable_eom_var":
        v = _get_var(sut, op)
        return seq.enable_eom_mode(op["ch"], op["amp_on"], v)
    # ------------------------------------------------------------ observers
    if k == "obs_str":
        return str(seq)
    if k == "obs_sample":
        from pulser.sampler import sample

        s = sample(
            seq,
            modulation=op.get("modulation", False),
            extended_duration=op.get("extended"),
        )
        if op.get("nested"):
            s.to_nested_dict(all_local=op.get("all_local", False))
        return None
    if k == "obs_duration":
        return seq.get_duration(
            op.get("ch"), include_fall_time=op.get("fall", False)
        )
    if k == "obs_estimate":
        return seq.estimate_added_delay(
            build_pulse(op["pulse"]), op["ch"], op.get("protocol", "min-delay")
        )
    if k == "obs_phase_ref":
        return seq.current_phase_ref(op["qubit"], op["basis"])
    if k == "obs_props":
        _ = seq.declared_channels
        _ = seq.available_channels
        _ = seq.declared_variables
        _ = seq.is_parametrized(), seq.is_measured()
        _ = seq.get_addressed_bases(), seq.get_addressed_states()
        _ = seq.is_register_mappable()
        for ch in list(seq.declared_channels):
            seq.is_in_eom_mode(ch)
        return None
    if k == "obs_abstract":
        return seq.to_abstract_repr(skip_validation=op.get("skip", True))
    if k == "obs_legacy":
        return seq._serialize()
    if k == "obs_roundtrip":
        # serialise + deserialise into a SEPARATE object (the run goes on with the
        # original): used where continuing on the restored object is not possible
        # (the abstract representation turns integer qubit ids into strings)
        from . import observe

        if op["kind"] == "abstract":
            s = seq.to_abstract_repr(skip_validation=op.get("skip", True))
            r = Sequence.from_abstract_repr(s)
        else:
            s = seq._serialize()
            r = Sequence._deserialize(s)
        return {"snap": observe.snapshot(r), "seq": r, "doc": s}
    if k == "obs_draw":
        import matplotlib.pyplot as plt

        try:
            seq.draw(
                mode=op.get("mode", "input"),
                draw_phase_shifts=op.get("shifts", False),
                draw_register=False,
                show=False,
            )
        finally:
            plt.close("all")
        return None
    # ------------------------------------------------------------- restarts
    if k == "restart_abstract":
        s = seq.to_abstract_repr(skip_validation=op.get("skip", True))
        sut.seq = Sequence.from_abstract_repr(s)
        sut.register = sut.seq.register
        sut.restarts += 1
        return None
    if k == "restart_legacy":
        s = seq._serialize()
        sut.seq = Sequence._deserialize(s)
        sut.register = sut.seq.register
        sut.restarts += 1
        return None
    if k == "restart_build":
        sut.seq = seq.build()
        sut.restarts += 1
        return None
    if k == "restart_switch_register":
        from . import world as W

        sut.seq = seq.switch_register(W.build_register(sut.world["register"]))
        sut.register = sut.seq.register
        sut.restarts += 1
        return None
    if k == "restart_switch_device_same":
        from . import world as W

        sut.seq = seq.switch_device(
            W.build_device(sut.world["device"]), strict=op.get("strict", True)
        )
        sut.restarts += 1
        return None
    if k == "switch_device":
        from . import world as W

        nd = W.build_device(op["device"])
        sut.seq = seq.switch_device(nd, strict=op["strict"])
        sut.device = nd
        sut.world = dict(sut.world, device=op["device"])
        sut.restarts += 1
        return None
    if k == "switch_register":
        from . import world as W

        nr = W.build_register(op["register"])
        sut.seq = seq.switch_register(nr)
        sut.register = nr
        sut.world = dict(sut.world, register=op["register"])
        sut.restarts += 1
        return None
    if k == "fork":
        return _fork(sut, op)
    # ---------------------------------------------------------------- cache
    if k == "cache_clear":
        from . import env

        env.clear_caches()
        return None
    raise ValueError(f"unknown op {k}")


def replica(sut: SUT) -> "SUT | None":
    """A fresh SUT brought to the same state by re-issuing the logged calls."""
    fs = SUT(sut.world0)
    for o in sut.log:
        try:
            _do(fs, o)
        except Exception:  # noqa: BLE001
            return None
        fs.log.append(o)
    return fs


def _fork(sut: SUT, op: dict) -> dict:
    from . import observe

    with warnings.catch_warnings():
        warnings.simplefilter("ignore")
        fs = replica(sut)
        if fs is None:
            return {"status": "replica-failed"}
        for o in op["prelude"]:
            try:
                _do(fs, o)
            except Exception as e:  # noqa: BLE001
                return {"status": "prelude-refused", "exc": type(e).__name__}
        pre = observe.snapshot(fs.seq)
    out = issue(fs, op["bad"])
    post = observe.snapshot(fs.seq)
    return {"status": "done", "pre": pre, "post": post, "out": out}


def _get_var(sut: SUT, op: dict):
    name = op["var"]
    if op.get("foreign"):
        from pulser.parametrized import Variable

        v = Variable(name, float, size=1)[0]
    else:
        v = sut.vars[name]
    if "scale" in op:
        v = v * op["scale"]
    return v


def issue(sut: SUT, op: dict) -> Outcome:
    before = sut.seq
    with warnings.catch_warnings(record=True) as w:
        warnings.simplefilter("always")
        try:
            val = _do(sut, op)
            if sut.seq is not before:
                # a restart replaced the live object: keep the old one around, it
                # must not be affected by what happens to the copy
                olds = getattr(sut, "old_seqs", None)
                if olds is None:
                    olds = sut.old_seqs = []
                olds.append(before)
                del olds[:-3]
        except Exception as e:  # noqa: BLE001 - the SUT may raise anything
            return Outcome(
                "raised",
                exc_type=type(e).__name__,
                exc_msg=str(e)[:300],
                warnings=tuple(str(x.message)[:80] for x in w),
            )
    if op["op"] in MUTATING or op["op"] in RESTART:
        sut.log.append(op)
    return Outcome("ok", value=val, warnings=tuple(str(x.message)[:80] for x in w))


def op_brief(op: dict) -> str:
    return json.dumps(op, sort_keys=True, default=str)
