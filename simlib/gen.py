"""Seeded generators of concrete operations, built from the *observed* state.

Everything here draws only from the random.Random instances it is handed.
"""
from __future__ import annotations

import math
import random
from typing import Any

import numpy as np

from .observe import Snap, ChanSnap, sort_ids

TWO_PI = 2 * math.pi
PROTOCOLS = ["min-delay", "no-delay", "wait-for-all"]


def pick(rng: random.Random, xs):
    return xs[rng.randrange(len(xs))]


def wpick(rng: random.Random, table: dict):
    items = [(k, w) for k, w in table.items() if w > 0]
    tot = sum(w for _, w in items)
    r = rng.random() * tot
    acc = 0.0
    for k, w in items:
        acc += w
        if r < acc:
            return k
    return items[-1][0]


# ------------------------------------------------------------------ durations
def gen_duration(rng: random.Random, ch, *, small=True, valid=True) -> int:
    clock, mn, mx = ch.clock_period, ch.min_duration, ch.max_duration
    pool = [
        mn,
        mn,
        mn + 1,
        mn + clock,
        3 * clock + mn,
        48,
        52,
        100,
        101,
        120,
        200,
        250,
        400,
    ]
    if not small:
        pool += [1000, 1500]
    d = pick(rng, pool)
    if rng.random() < 0.5 and d % clock:
        d += clock - d % clock
    d = max(d, mn)
    if mx is not None:
        if rng.random() < 0.08:
            d = mx if mx < 5000 else d
        d = min(d, mx)
    return int(d)


# ------------------------------------------------------------------ waveforms
def gen_amp_wf(rng: random.Random, d: int, ch, *, eps_boundary=True) -> dict:
    amax = ch.max_amp if ch.max_amp is not None else 12.0
    lo = max(ch.min_avg_amp * 1.05, 0.0)
    r = rng.random()
    if eps_boundary and ch.max_amp is not None and r < 0.12:
        v = ch.max_amp
    elif r < 0.2:
        v = 0.0
    else:
        v = round(rng.uniform(max(lo, 0.05 * amax), amax), 4)
    m = ch.min_avg_amp
    if eps_boundary and m > 0 and d >= 8 and rng.random() < 0.12 and (ch.max_amp is None or 2.2 * m <= ch.max_amp):
        # averages just BELOW the minimum that only count as above it if the zero
        # samples are left out of the mean: must be refused
        if rng.random() < 0.5:
            return {"w": "ramp", "d": d, "a": 0.0, "b": round(2 * m * (1 - 0.5 / d), 9)}
        d1 = max(1, d // 3)
        return {"w": "composite", "parts": [{"w": "const", "d": d1, "v": 0.0}, {"w": "const", "d": d - d1, "v": round(m * 1.2, 6)}]}
    kind = wpick(
        rng,
        {"const": 5, "ramp": 2, "blackman": 2, "kaiser": 1, "interp": 1, "custom": 1, "composite": 1},
    )
    if v == 0.0:
        kind = "const"
    if kind == "const":
        return {"w": "const", "d": d, "v": v}
    if kind == "ramp":
        a, b = (v, round(v * rng.random(), 4))
        if rng.random() < 0.5:
            a, b = b, a
        if (a + b) / 2 < lo:
            return {"w": "const", "d": d, "v": v}
        return {"w": "ramp", "d": d, "a": a, "b": b}
    if kind in ("blackman", "kaiser"):
        # area chosen so that the peak stays below v: peak ~ area/(0.42 d) *1e3
        area = round(0.35 * v * d * 1e-3, 5)
        if area <= 0 or d < 6 or (area * 1e3 / d) < lo:
            return {"w": "const", "d": d, "v": v}
        if kind == "blackman":
            return {"w": "blackman", "d": d, "area": area}
        return {"w": "kaiser", "d": d, "area": area, "beta": pick(rng, [14.0, 6.0])}
    if kind == "interp":
        if d < 8:
            return {"w": "const", "d": d, "v": v}
        vals = [round(v * x, 4) for x in (0.2, 0.9, 0.5 + 0.4 * rng.random(), 0.3)]
        if sum(vals) / 4 < lo * 1.3:
            return {"w": "const", "d": d, "v": v}
        if rng.random() < 0.35:
            # scipy's interp1d with an extra keyword (kept when the duration changes)
            return {"w": "interp", "d": d, "values": vals, "interp1d_kind": pick(rng, ["cubic", "quadratic", "zero", "linear"])}
        return {"w": "interp", "d": d, "values": vals}
    if kind == "custom":
        xs = np.linspace(0, math.pi, d)
        s = [round(float(v * (0.3 + 0.7 * math.sin(x))), 5) for x in xs]
        return {"w": "custom", "samples": s}
    # composite
    d1 = max(1, d // 3)
    return {
        "w": "composite",
        "parts": [
            {"w": "ramp", "d": d1, "a": round(0.5 * v, 4), "b": v},
            {"w": "const", "d": d - d1, "v": v},
        ],
    }


def gen_det_wf(rng: random.Random, d: int, ch, *, dmm=False, weights_max=1.0, weights_sum=1.0) -> dict:
    if dmm:
        lims = []
        if getattr(ch, "bottom_detuning", None) is not None and weights_max > 0:
            lims.append(ch.bottom_detuning / weights_max)
        if getattr(ch, "total_bottom_detuning", None) is not None and weights_sum > 0:
            lims.append(ch.total_bottom_detuning / weights_sum)
        lo = max(lims) if lims else -30.0
        r = rng.random()
        if r < 0.12 and lims:
            v = lo  # exactly at the (weighted) bottom limit
        elif r < 0.2:
            v = 0.0
        else:
            v = round(rng.uniform(lo * 0.98, 0.0), 4)
        if rng.random() < 0.07 and d >= 2 and v < 0:
            # mostly negative, ends positive: a DMM must refuse it
            return {"w": "ramp", "d": d, "a": v, "b": round(-0.3 * v + 0.5, 4)}
        if rng.random() < 0.3 and d >= 2:
            return {"w": "ramp", "d": d, "a": v, "b": round(v * rng.random(), 4)}
        return {"w": "const", "d": d, "v": v}
    dmax = ch.max_abs_detuning if ch.max_abs_detuning is not None else 60.0
    r = rng.random()
    if r < 0.35:
        return {"w": "const", "d": d, "v": 0.0}
    if r < 0.45 and ch.max_abs_detuning is not None:
        v = pick(rng, [dmax, -dmax, dmax + 4e-7, -(dmax + 4e-7)])
        return {"w": "const", "d": d, "v": v}
    v = round(rng.uniform(-dmax, dmax), 4)
    if dmax == 0.0 and r > 0.9:
        v = pick(rng, [0.5, -2.0, 1e-5])  # must be refused on a resonant-only channel
    if r < 0.75 or d < 2:
        return {"w": "const", "d": d, "v": v}
    return {"w": "ramp", "d": d, "a": v, "b": round(rng.uniform(-dmax, dmax), 4)}


PHASE_POOL = [0.0, 0.0, 0.0, 1.0, math.pi / 2, -0.5, 7.0, 3.0]


def gen_pulse(rng: random.Random, ch, *, last_phase: float | None = None, d: int | None = None) -> dict:
    if d is None:
        d = gen_duration(rng, ch)
    if last_phase is not None and rng.random() < 0.45:
        phase = last_phase
    else:
        phase = pick(rng, PHASE_POOL)
    pps = pick(rng, [0.0, 0.0, 0.0, 0.7, -1.2, 6.5])
    out = {
        "amp": gen_amp_wf(rng, d, ch),
        "det": gen_det_wf(rng, d, ch),
        "phase": phase,
        "pps": pps,
    }
    if rng.random() < 0.06 and "d" in out["amp"]:
        # built with Pulse.ArbitraryPhase(amplitude, constant phase waveform, pps)
        out["det"] = {"w": "const", "d": out["amp"]["d"], "v": 0.0}
        out["ctor"] = "arbitrary_phase"
    return out


# ------------------------------------------------------------------ EOM setpoints
def gen_eom_setpoint(rng: random.Random, ch) -> dict:
    amax = ch.max_amp if ch.max_amp is not None else 12.0
    dmax = ch.max_abs_detuning if ch.max_abs_detuning is not None else 60.0
    amp = round(rng.uniform(0.15 * amax, 0.9 * amax), 4)
    det = pick(rng, [0.0, 0.0, round(rng.uniform(-0.3 * dmax, 0.3 * dmax), 4)])
    out = {"amp_on": amp, "det_on": det}
    r = rng.random()
    if r < 0.4:
        out["opt_off"] = pick(rng, [0.0, -5.0, -30.0, 10.0, -100.0])
    if rng.random() < 0.35:
        out["cpd"] = True
    return out


def weights_of(cs: ChanSnap) -> tuple[float, float]:
    ws = [w for _, w in cs.dmm_weights[1]] if cs.dmm_weights else [1.0]
    return (max(ws) if ws else 1.0, sum(ws) if ws else 1.0)
