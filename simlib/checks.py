"""Registry: property id -> CheckSpec."""
from __future__ import annotations

from . import actors as A
from . import engine, runner

COMPONENTS_SEQ = {
    "real": [
        "pulser.Sequence and its scheduler (_schedule.py)",
        "channels, devices, registers, pulses, waveforms (incl. Pulse.fall_time, modulation)",
        "sampler",
        "abstract-repr and legacy (de)serialisers",
    ],
    "model_or_stub": [
        "reference models (RefSched/RefPhase/RefType/RefRender) in simlib/oracles",
        "seeded interleaver and fault actor in simlib/engine.py",
    ],
    "not_exercised": ["remote/QPU backends", "interactive drawing"],
}


def seq_spec(pid, level, rule, profile, oracle_factory, nontrivial_fn=None, world_kw=None, world_fn=None, **kw):
    def run_one(seed, run, keep=True):
        res = engine.run_generated(pid, seed, run, profile, oracle_factory, world_kw=dict(world_kw or {}), nontrivial_fn=nontrivial_fn, world_fn=world_fn)
        return runner.result_to_dict(res, keep_trace=True)

    def replay_fn(doc):
        res = engine.run_trace(doc["world"], doc["trace"], profile, oracle_factory)
        return [v.to_json() for v in res.violations]

    def minimise_fn(doc):
        want = doc["expected"]["oracle"]

        def test(sub):
            res = engine.run_trace(doc["world"], sub, profile, oracle_factory)
            return any(v.oracle == want for v in res.violations)

        if not test(doc["trace"]):
            return doc
        small = runner.ddmin(list(doc["trace"]), test)
        res = engine.run_trace(doc["world"], small, profile, oracle_factory)
        v = [x for x in res.violations if x.oracle == want][0]
        out = dict(doc)
        out["trace"] = small
        out["original_length"] = len(doc["trace"])
        out["expected"] = {"oracle": want, "msg": v.msg, "step": v.step}
        return out

    return runner.CheckSpec(pid=pid, level=level, rule=rule, run_one=run_one, replay_fn=replay_fn, minimise_fn=minimise_fn, components=COMPONENTS_SEQ, **kw)


_REG = {}


def _build():
    from .oracles import c02

    _REG["C02"] = seq_spec(
        "C02",
        "exploration",
        "seeded SEQ-SIM runs (world, per-channel programs, interleaving, faults all from VERIF_SEED); a run is non-trivial if it has >=2 channels and >=2 automatically inserted delays; distinct = distinct concrete op traces",
        A.make_profile(),
        lambda: [c02.C02()],
        nontrivial_fn=c02.nontrivial,
        assumptions=["Pulse.fall_time of the real code is a trusted input to the expected pending-fall duration"],
        expected_probes=["pending_fall_time"],
    )


def get(pid):
    if not _REG:
        _build()
    return _REG.get(pid)


def all_ids():
    if not _REG:
        _build()
    return sorted(_REG)
