"""Registry: property id -> CheckSpec."""
from __future__ import annotations

from . import actors as A
from . import engine, known, runner

COMPONENTS_SEQ = {
    "real": [
        "pulser.Sequence and its scheduler (_schedule.py)",
        "channels, devices, registers, pulses, waveforms (incl. Pulse.fall_time, modulation)",
        "sampler",
        "abstract-repr and legacy (de)serialisers",
    ],
    "model_or_stub": [
        "reference models (RefSched/RefPhase/RefType/RefRender) in simlib/oracles",
        "seeded interleaver and fault actor in simlib/engine.py",
    ],
    "not_exercised": ["remote/QPU backends", "interactive drawing"],
}


def seq_spec(pid, level, rule, profile, oracle_factory, nontrivial_fn=None, world_kw=None, world_fn=None, enumerated=False, actors_fn=None, **kw):
    def run_one(seed, run, keep=True):
        if actors_fn is not None:
            res = engine.run_walk(pid, seed, run, profile, oracle_factory, actors_fn, world_fn=world_fn, world_kw=dict(world_kw or {}), nontrivial_fn=nontrivial_fn)
            return runner.result_to_dict(res, keep_trace=True)
        if enumerated:
            res = engine.run_enumerated(pid, seed, run, profile, oracle_factory, world_kw=dict(world_kw or {}), nontrivial_fn=nontrivial_fn)
            return runner.result_to_dict(res, keep_trace=True)
        res = engine.run_generated(pid, seed, run, profile, oracle_factory, world_kw=dict(world_kw or {}), nontrivial_fn=nontrivial_fn, world_fn=world_fn)
        return runner.result_to_dict(res, keep_trace=True)

    def replay_fn(doc):
        res = engine.run_trace(doc["world"], doc["trace"], profile, oracle_factory, want=doc.get("expected", {}).get("oracle"))
        return [v.to_json() for v in res.violations]

    def minimise_fn(doc):
        want = doc["expected"]["oracle"]

        def test(sub):
            res = engine.run_trace(doc["world"], sub, profile, oracle_factory, want=want)
            return any(v.oracle == want for v in res.violations)

        if not test(doc["trace"]):
            return doc
        small = runner.ddmin(list(doc["trace"]), test)
        res = engine.run_trace(doc["world"], small, profile, oracle_factory, want=want)
        v = [x for x in res.violations if x.oracle == want][0]
        out = dict(doc)
        out["trace"] = res.trace  # outcomes re-recorded on the minimised history
        out["original_length"] = len(doc["trace"])
        out["expected"] = {"oracle": want, "msg": v.msg, "step": v.step}
        return out

    return runner.CheckSpec(pid=pid, level=level, rule=rule, run_one=run_one, replay_fn=replay_fn, minimise_fn=minimise_fn, components=COMPONENTS_SEQ, known_matchers=known.MATCHERS, **kw)


def _c18_reg():
    from .oracles import c18

    _REG["C18"] = seq_spec(
        "C18",
        "exploration",
        "seeded SEQ-SIM runs with 'switch' faults: at seeded instants the sequence is switched to a device derived from the current one by a seeded perturbation (renamed; one or several channel timing parameters / limits / EOM fields changed; channel order and ids permuted; reusability, Rydberg level, DMM parameters, max_sequence_duration changed; or another built-in device) with strict True/False, or to a register with the same ids (shifted, scaled, reordered); the run continues on the switched object; non-trivial = a timing-relevant perturbation applied to a sequence that has automatically inserted delays; distinct = distinct concrete op traces",
        A.make_profile(
            w_fault=0.8,
            fault_kinds={"bad": 0.5, "restart": 0, "cache": 0.2, "switch": 6},
            max_restarts=5,
            w_observer=0.1,
            measure_p=0.1,
            declare_var_p=0.25,
        ),
        lambda: [c18.C18()],
        nontrivial_fn=c18.nontrivial,
        world_kw={"bw_bias": 0.75, "call_style_p": 0.3},
        runs={"quick": 4000, "thorough": 100000},
        assumptions=["strict=True: identical timeline (slot times, pulses, EOM blocks) and phase references, which implies identical samples", "strict=False: the result is judged against the NEW device's channels with C01's and C02's intrinsic invariants"],
        expected_probes=["timing_relevant_switch", "strict_switch_accepted_with_timing_change", "nonstrict_switch_changed_timeline", "register_switched"],
    )


def estimate_hook(p_est=0.5, p_cache=0.3):
    """Before an add: ask for the estimate of the very same add (optionally
    with a cache flush in between) so that C03 can compare the two."""

    def hook(ctx, st, actor, op, snap, obr, fr):
        if op["op"] != "add" or op["ch"] not in snap.channels or snap.parametrized:
            return
        if obr.random() >= p_est:
            return
        est = {"op": "obs_estimate", "pulse": op["pulse"], "ch": op["ch"], "protocol": op.get("protocol", "min-delay")}
        st.step("observer", est)
        if fr.random() < p_cache:
            ctx.stats["fault/cache/configured"] += 1
            st.step("fault", {"op": "cache_clear"}, "cache/clear")

    return hook


def tmpl_spec(pid, level, rule, profile, **kw):
    from . import tmpl

    def run_one(seed, run):
        res = tmpl.run_template(pid, seed, run, profile)
        return runner.result_to_dict(res, keep_trace=True)

    def _replay(doc, want=None):
        prof = dict(profile, _want=want)
        res = tmpl.run_template(pid, 0, 0, prof, world=doc["world"], history=[r["op"] for r in doc["trace"]])
        return res

    def replay_fn(doc):
        return [v.to_json() for v in _replay(doc, doc.get("expected", {}).get("oracle")).violations]

    def minimise_fn(doc):
        want = doc["expected"]["oracle"]

        def test_hist(sub):
            d = dict(doc, trace=sub)
            try:
                return any(v.oracle == want for v in _replay(d, want).violations)
            except Exception:  # noqa: BLE001
                return False

        if not test_hist(doc["trace"]):
            return doc
        hist = runner.ddmin(list(doc["trace"]), test_hist, budget=60)
        world = doc["world"]

        def test_prog(sub):
            w = dict(world, program=sub)
            try:
                return any(v.oracle == want for v in _replay(dict(doc, world=w, trace=hist), want).violations)
            except Exception:  # noqa: BLE001
                return False

        prog = runner.ddmin(list(world["program"]), test_prog, budget=120)
        out = dict(doc, world=dict(world, program=prog), trace=hist, original_length=len(doc["trace"]))
        res = _replay(out, want)
        v = [x for x in res.violations if x.oracle == want][0]
        out["expected"] = {"oracle": want, "msg": v.msg, "step": v.step}
        return out

    comps = {
        "real": ["pulser.Sequence parametrized mode (store/build), Variable/ParamObj evaluation, MappableRegister, switch_register/switch_device, abstract-repr and legacy (de)serialisers"],
        "model_or_stub": ["direct twin: the same calls issued with numpy-evaluated values (simlib/tmpl.py)"],
        "not_exercised": ["torch-backed values"],
    }
    return runner.CheckSpec(pid=pid, level=level, rule=rule, run_one=run_one, replay_fn=replay_fn, minimise_fn=minimise_fn, components=comps, known_matchers=known.MATCHERS, **kw)


_REG = {}


def _build():
    from .oracles import c01, c02, c03, c04, c06, c07, c09, c10, c13, c14, c15, c18

    _REG["C02"] = seq_spec(
        "C02",
        "exploration",
        "seeded SEQ-SIM runs (world, per-channel programs, interleaving, faults all from VERIF_SEED); a run is non-trivial if it has >=2 channels and >=2 automatically inserted delays; distinct = distinct concrete op traces",
        A.make_profile(empty_name_p=0.12),
        lambda: [c02.C02()],
        nontrivial_fn=c02.nontrivial,
        assumptions=["Pulse.fall_time of the real code is a trusted input to the expected pending-fall duration"],
        expected_probes=["pending_fall_time"],
    )


    _REG["C03"] = seq_spec(
        "C03",
        "exploration",
        "seeded SEQ-SIM runs on >=2 channels; every pulse-adding step is compared with RefSched (safety strict, minimality over 4 declared readings), estimate_added_delay issued right before the same add, align checked against pre-state ends; non-trivial = a conflict forced a delay that needed clock/min-duration rounding (or >=1 conflict delay and >=2 inserted delays); distinct = distinct concrete op traces",
        A.make_profile(
            n_channels=(2, 4),
            chan_ops={"add": 12, "delay": 2, "target": 3, "phase_shift": 2, "align": 3, "enable_eom": 2},
            w_fault=0.3,
            fault_kinds={"bad": 2, "restart": 1, "cache": 2},
            pre_op_hook=estimate_hook(),
            measure_p=0.05,
        ),
        lambda: [c03.C03(), c09.Relabel(c07.C07(), "C03/barrier-", only=("C07/shift-time", "C07/barrier"))],
        nontrivial_fn=c03.nontrivial,
        world_kw={"bw_bias": 0.8},
        assumptions=["Pulse.fall_time of the real code is a trusted input", "scheduled phases are read from the SUT (phase arithmetic is C07's business)"],
        expected_probes=["conflict_forced_delay", "conflict_delay_rounded_up", "phase_jump_buffer_applied", "phase_barrier_applied", "estimate_then_add", "align_padded", "align_with_pending_fall"],
    )

    _REG["C10"] = seq_spec(
        "C10",
        "exploration",
        "seeded SEQ-SIM runs biased to phase changes and retargets on channels with generated phase-jump/retarget knobs; intrinsic gap invariants on the pulse/target just added; non-trivial = >=1 phase change with a non-zero buffer and >=1 retarget constrained by interval/fixed time/fall wait; distinct = distinct concrete op traces",
        A.make_profile(
            chan_ops={"add": 10, "delay": 2, "target": 6, "phase_shift": 1, "align": 1, "enable_eom": 2},
            eom_ops={"add_eom_pulse": 10, "delay": 2, "modify": 1, "disable": 2, "phase_shift": 0.5, "align": 0.5},
            w_fault=0.25,
            w_observer=0.2,
            measure_p=0.03,
        ),
        lambda: [c10.C10()],
        nontrivial_fn=c10.nontrivial,
        world_kw={"bw_bias": 0.75},
        assumptions=["Pulse.fall_time of the real code is a trusted input", "in EOM mode the required phase-jump time is read as 2 x EOM rise time (weakest reading, DESIGN C10)"],
        expected_probes=["phase_change_with_buffer", "phase_change_in_eom", "phase_change_no_delay", "retarget_same_atoms", "retarget_clipped_to_interval", "fixed_retarget_applied", "retarget_waited_for_fall"],
    )
    _REG["C01"] = seq_spec(
        "C01",
        "exploration",
        "seeded SEQ-SIM runs with boundary-biased pulse parameters (at / one ulp or 4e-7 beyond / inside each limit) on generated channels; intrinsic limits of every newly scheduled pulse slot after every accepted call + converse (inside every limit => accepted, unchanged or only lengthened); non-trivial = >=3 pulses scheduled, >=1 within one ulp / 1 ns of a limit; distinct = distinct concrete op traces",
        A.make_profile(
            chan_ops={"add": 12, "delay": 2, "target": 2, "phase_shift": 1, "align": 1, "enable_eom": 2},
            w_fault=0.5,
            fault_kinds={"bad": 6, "restart": 1, "cache": 0.5},
            bad_filter=("amp", "det", "dur", "seqdur", "dmm", "eom"),
            w_observer=0.15,
            slm_p=0.4,
        ),
        lambda: [c01.C01()],
        nontrivial_fn=c01.nontrivial,
        assumptions=["waveform sample values are taken from the real code (C16's business)", "RefSched start prediction decides whether a valid pulse still fits max_sequence_duration"],
        expected_probes=["pulse_near_limit", "pulse_lengthened", "near_max_sequence_duration"],
    )

    _REG["C09"] = seq_spec(
        "C09",
        "fault_enumeration",
        "seeded base histories (<=14 building calls, world/programs/interleaving from VERIF_SEED); in four runs out of five at EVERY position of every base history (in the fifth at a seeded subset of positions and entries, so that state left behind by a single query or refused call can go stale) EVERY fault-catalogue entry constructible in the current state (simlib/faults.py, ~60 kinds) and every read-only call is issued and followed by a full-state comparison; two-step fork faults (a copy rebuilt from the call log is first brought to within one clock period of the maximum sequence duration, then a call whose automatic buffer no longer fits must be refused without trace); a twin that receives only the successful timeline-changing calls is compared after each of them (continuous form of reproducibility from the record of successful calls); restarts through abstract/legacy/build/switch paths at seeded positions; the run continues on the restored object and RefSched keeps judging it (liveness). non-trivial = the history reached >=2 of the biased states (pending fall time, open EOM block, pending SLM mask, near max duration, measured); distinct = distinct concrete op traces",
        A.make_profile(
            ops_per_channel=(2, 6),
            max_restarts=8,
            slm_p=0.4,
            measure_p=0.3,
            max_base=14,
            fork_faults=True,
            declare_var_p=0.3,
            slm_first_p=0.35,
            chan_ops={"add": 10, "delay": 3, "target": 3, "phase_shift": 2, "align": 2, "enable_eom": 3},
        ),
        lambda: [c09.C09(), c09.Twin(), c09.Relabel(c03.C03(), "C09/live-", only=("C03/not-minimal", "C03/conflict", "C03/barrier"))],
        nontrivial_fn=c09.nontrivial,
        world_kw={"bw_bias": 0.75, "int_ids_p": 0.1, "call_style_p": 0.3},
        enumerated=True,
        runs={"quick": 500, "thorough": 12000},
        assumptions=["fault positions and the catalogue are enumerated completely per base history; base histories are sampled", "state comparison covers timeline, phase references and shift times, EOM blocks, mode flags (incl. parametrized), declared/available channels and the canonical call log"],
        expected_probes=["state_pending_fall", "state_open_eom", "state_slm_pending", "state_near_max_seq", "state_measured", "restart_after_failed_call"],
    )

    def c13_world(rng):
        from . import world as W

        r = rng.random()
        if r < 0.45:
            dev = {"kind": "builtin", "name": rng.choice(["AnalogDevice", "DigitalAnalogDevice", "MockDevice", "MockDevice"])}
        elif r < 0.8:
            dev = W.gen_device(rng, mode="virtual", xy_p=0.5)
        else:
            dev = W.gen_device(rng, mode="physical")
        reg = W.gen_register(rng, n_min=2, n_max=4, dim3_p=0.0, int_ids_p=0.15)
        return {"device": dev, "register": reg}

    _REG["C13"] = seq_spec(
        "C13",
        "exploration",
        "typestate walks: a seeded walker attempts every building / inspection operation (arguments otherwise valid) from every reachable mode on physical, virtual-reusable and XY-capable devices; each outcome is compared with the three-valued RefType model (MUST_ACCEPT / MUST_REFUSE / DONT_CARE) written from the statement; non-trivial = the walk visits >=4 distinct modes; distinct = distinct concrete op traces",
        A.make_profile(max_steps=45),
        lambda: [c13.C13()],
        nontrivial_fn=c13.nontrivial,
        world_fn=c13_world,
        actors_fn=lambda ctx, rng: [(c13.TypestateActor(45), 1.0)],
        assumptions=["refusal reasons the statement does not mention are DONT_CARE", "MUST_ACCEPT is only claimed for calls with safely-inside arguments and >=3000 ns of room below max_sequence_duration"],
    )

    _REG["C07"] = seq_spec(
        "C07",
        "exploration",
        "seeded SEQ-SIM runs with phase-heavy programs (explicit shifts on arbitrary subsets/bases, post-phase-shifts, retargets, several channels per basis, EOM drift corrections, restarts); a stateful exact accumulator (RefPhase) predicts every reference, every scheduled pulse phase and every shift time; non-trivial = >=3 shifts and >=1 pulse scheduled after a non-zero reference; distinct = distinct concrete op traces",
        A.make_profile(
            chan_ops={"add": 10, "delay": 1.5, "target": 3, "phase_shift": 5, "align": 1, "enable_eom": 2.5},
            eom_ops={"add_eom_pulse": 8, "delay": 2, "modify": 2, "disable": 2, "phase_shift": 2, "align": 0.5},
            w_fault=0.3,
            fault_kinds={"bad": 2, "restart": 2, "cache": 0.5},
            w_observer=0.2,
            measure_p=0.03,
        ),
        lambda: [c07.C07()],
        nontrivial_fn=c07.nontrivial,
        assumptions=["EOM drift-correction intervals are taken from observed slot times (their endpoints are implementation-defined); sign, rate (-detuning_off) and the 1e-3 factor are checked", "float comparisons modulo 2pi with 1e-9 tolerance"],
        expected_probes=["explicit_shift", "post_phase_shift", "pulse_after_shift", "barrier_delayed_pulse", "drift_corrected_pulse", "drift_corrected_enable", "drift_corrected_disable", "drift_corrected_modify"],
    )

    _REG["C06"] = seq_spec(
        "C06",
        "exploration",
        "seeded SEQ-SIM runs; the observer samples the sequence at random instants DURING the run (every intermediate state: inside EOM mode, SLM mask pending, empty channels) and after restarts; each observation is compared sample-for-sample with RefRender (per channel arrays, EOM idle detuning, phases over pulses, extension padding, per-atom/per-basis view in both default and all-local form with DMM weights and XY SLM masking); non-trivial = the state has a retarget, an EOM block or a DMM and >=2 observations were compared; distinct = distinct concrete op traces",
        A.make_profile(
            w_observer=1.2,
            observers={"obs_str": 0.3, "obs_sample": 6, "obs_duration": 0.3, "obs_estimate": 0.3, "obs_phase_ref": 0.2, "obs_props": 0.2, "obs_abstract": 0.2, "obs_legacy": 0.2, "obs_draw": 0.0},
            w_fault=0.3,
            fault_kinds={"bad": 2, "restart": 2, "cache": 1},
            restart_kinds={"restart_abstract": 2, "restart_legacy": 1, "restart_build": 1, "restart_switch_register": 1, "restart_switch_device_same": 0.5, "restart_swap_register": 2},
            slm_p=0.45,
            slm_p_xy=0.8,
            use_xy_p=0.8,
            nonfatal=("C06/atom-phase-default-view", "C06/atom-phase"),
        ),
        lambda: [c06.C06()],
        nontrivial_fn=c06.nontrivial,
        world_kw={"xy_p": 0.3, "int_ids_p": 0.1, "ring_p": 0.15},
        runs={"quick": 4000, "thorough": 120000},
        assumptions=["waveform sample values come from the real code (C16's business)", "per-atom phase is only asserted at instants where exactly one pulse acts on the atom in that basis"],
        expected_probes=["eom_idle_instants", "extended_observation", "extended_in_eom", "atom_view_checked", "xy_slm_mask_rendered", "xy_pulse_straddles_mask_end", "dmm_weighted"],
    )

    _REG["C15"] = seq_spec(
        "C15",
        "exploration",
        "seeded SEQ-SIM runs with EOM actors on generated RydbergEOM configurations (limiting beam, controlled beams, multiple beam control, shift coefficients, custom buffer, fast and slow EOM): every interleaving of enable/modify/pulse/delay/disable with other channels active, near the maximum duration and across restarts; checks square pulses at the latest setpoint, idle off-detuning, the chosen off-detuning against an independently derived light-shift option set, and the buffers around blocks; non-trivial = >=1 block with non-zero off-detuning and >=2 EOM pulses; distinct = distinct concrete op traces",
        A.make_profile(
            chan_ops={"add": 6, "delay": 2, "target": 1.5, "phase_shift": 1, "align": 1, "enable_eom": 7},
            eom_ops={"add_eom_pulse": 8, "delay": 2.5, "modify": 2.5, "disable": 2.5, "phase_shift": 0.7, "align": 0.7},
            w_fault=0.3,
            fault_kinds={"bad": 2, "restart": 2, "cache": 0.5},
            fork_faults=True,
            bad_filter=("fork", "eom", "mode", "dur", "seqdur", "var"),
            w_observer=0.2,
            measure_p=0.03,
        ),
        lambda: [c15.C15(), c09.Relabel(c07.C07(), "C15/drift-", only=("C07/pulse-phase", "C07/reference")), c09.Relabel(c09.C09(), "C15/refused-", only=("C09/refused-call-changed",))],
        nontrivial_fn=c15.nontrivial,
        world_kw={"bw_bias": 1.0},
        assumptions=["Pulse.fall_time of the real code is a trusted input (both bandwidth readings accepted for 'ramped down')", "the emulator clause (drift-corrected populations) is decided by the EMU-SIM scenario part of this check"],
        expected_probes=["eom_pulse", "block_with_nonzero_off_detuning", "off_detuning_choice", "eom_buffer_detuned", "eom_buffer_plain", "enable_waited_for_fall", "disable_custom_buffer", "disable_waited_for_fall"],
    )

    _REG["C14"] = seq_spec(
        "C14",
        "exploration",
        "seeded SEQ-SIM runs on channels with generated modulation / EOM bandwidths; the observer requests modulated sampling on every kind of intermediate state (empty channels, open EOM blocks, extended durations); every scheduled pulse's amplitude is re-modulated with a 4x rise-time padding to expose the tail the implementation truncates; cache flushes between computations; non-trivial = >=2 pulse tails measured and >=1 modulated observation; distinct = distinct concrete op traces",
        A.make_profile(
            w_observer=0.8,
            observers={"obs_str": 0.2, "obs_sample": 6, "obs_duration": 0.5, "obs_estimate": 0.5, "obs_phase_ref": 0.1, "obs_props": 0.1, "obs_abstract": 0.1, "obs_legacy": 0.1, "obs_draw": 0.0},
            w_fault=0.4,
            fault_kinds={"bad": 1, "restart": 1, "cache": 4},
        ),
        lambda: [c14.C14()],
        nontrivial_fn=c14.nontrivial,
        world_kw={"bw_bias": 0.9},
        assumptions=["NOT decided here (pure filter algebra over arbitrary inputs, no state/order/fault in it): linearity for arbitrary sample pairs, the 'tone at the bandwidth is halved' law, tail bound for waveforms that never occur in generated programs, tail of the detuning output", "Channel.apply_modulation of the real code is the filter under test; Pulse.fall_time is the accounted fall time"],
        expected_probes=["tail_with_end_buffer", "separated_pulses_checked", "modulated_sampling_with_empty_channel", "fall_time_recomputed_after_cache_fault", "superposition_checked"],
    )

    _REG["C04"] = seq_spec(
        "C04",
        "exploration",
        "seeded SEQ-SIM runs with 'restart' faults at seeded instants: the live sequence is persisted (abstract repr / legacy JSON), dropped, restored and the run CONTINUES on the restored object under RefSched and RefPhase, so hidden state the JSON failed to carry shows up later; restored object compared field-wise with the original; 15% of the worlds use integer qubit ids (there the abstract round trip, which stringifies ids, is compared as a separate object and the run goes on with the original); abstract repr validated against the published schema; non-trivial = a restart of a program with >=5 operations and >=1 non-default optional argument; distinct = distinct concrete op traces. (Parametrized templates: see the TMPL-SIM part of this check.)",
        A.make_profile(
            w_fault=1.0,
            fault_kinds={"bad": 1, "restart": 6, "cache": 0.3},
            restart_kinds={"restart_abstract": 3, "restart_legacy": 2, "restart_build": 0, "restart_switch_register": 0, "restart_switch_device_same": 0},
            max_restarts=6,
            slm_p=0.4,
            measure_p=0.3,
            w_observer=0.15,
        ),
        lambda: [c04.C04(), c09.Relabel(c03.C03(), "C04/continued-sched-", only=("C03/not-minimal", "C03/conflict", "C03/barrier")), c09.Relabel(c07.C07(), "C04/continued-phase-", only=("C07/reference", "C07/pulse-phase", "C07/shift-time", "C07/barrier"))],
        nontrivial_fn=c04.nontrivial,
        world_kw={"xy_p": 0.25, "int_ids_p": 0.15, "call_style_p": 0.3},
        runs={"quick": 3000, "thorough": 60000},
        assumptions=["legacy JSON is only claimed for built-in and virtual devices (custom physical Device classes are documented as unsupported)", "set-valued targets are compared as sets (hash order)"],
        expected_probes=["restart_abstract", "restart_legacy", "schema_validated", "roundtrip_integer_ids"],
    )

    _REG["C08"] = tmpl_spec(
        "C08",
        "exploration",
        "seeded template worlds (TMPL-SIM): a concrete program from the SEQ-SIM actors with numeric positions lifted into variable expressions (+ - * / // % **, neg abs sqrt exp cos tanh, array items/slices); history = builds of the template in seeded order (repeats included), failing builds (missing / wrong-size / invalidating values), str / to_abstract_repr in between, builds of switch_register / switch_device siblings sharing the Variable objects, cache flushes, restarts of the template; every build is compared with direct construction (same calls, numpy-evaluated values), the template's fingerprint must never change; mappable registers: mapping to chosen traps in declared order; non-trivial = >=2 variables, >=1 expression in the program and >=3 builds; distinct = distinct (program, variables, history)",
        {"mappable_p": 0.3, "lift_p": 0.5, "hist_len": 10, "only_prefix": "C08", "sibling_extend_p": 0.5, "tight_atom_num_p": 0.2},
        runs={"quick": 2500, "thorough": 60000},
        assumptions=["direct evaluation uses numpy float64 arithmetic (the same IEEE operations the library applies)", "calls the template itself refused when they were issued are not part of either side"],
        expected_probes=["repeated_build", "failing_build_mid_replay", "sibling_build"],
    )


def emu_spec(pid, level, rule, profile, checker_factory, **kw):
    from . import emu

    def run_one(seed, run):
        return runner.result_to_dict(emu.run_emu(pid, seed, run, profile, checker_factory), keep_trace=True)

    def _replay(doc):
        return emu.run_emu(pid, 0, 0, profile, checker_factory, doc=doc)

    def replay_fn(doc):
        return [v.to_json() for v in _replay(doc).violations]

    def minimise_fn(doc):
        want = doc["expected"]["oracle"]

        def test(sub):
            try:
                return any(v.oracle == want for v in _replay(dict(doc, trace=sub)).violations)
            except Exception:  # noqa: BLE001
                return False

        if not test(doc["trace"]):
            return doc
        small = runner.ddmin(list(doc["trace"]), test, budget=80)
        res = _replay(dict(doc, trace=small))
        v = [x for x in res.violations if x.oracle == want][0]
        return dict(doc, trace=res.trace, original_length=len(doc["trace"]), expected={"oracle": want, "msg": v.msg, "step": v.step})

    comps = {
        "real": ["pulser_simulation.QutipEmulator / Hamiltonian / SimConfig / simresults, QutipBackendV2, QuTiP solvers", "pulser.Sequence and sampler (program construction)"],
        "model_or_stub": ["RefHam / RefRender / RefProp reference models (simlib/emu.py, simlib/oracles/c06.py)", "owned numpy RNG stream (np.random seeded per step from VERIF_SEED)"],
        "not_exercised": ["remote backends", "torch"],
    }
    return runner.CheckSpec(pid=pid, level=level, rule=rule, run_one=run_one, replay_fn=replay_fn, minimise_fn=minimise_fn, components=comps, known_matchers=known.MATCHERS, **kw)


def v2_spec(pid, level, rule, profile, **kw):
    from . import emu2

    def run_one(seed, run):
        return runner.result_to_dict(emu2.run_v2(pid, seed, run, profile), keep_trace=True)

    def _replay(doc):
        return emu2.run_v2(pid, doc.get("seed", 0), doc.get("run", 0), profile, doc=doc)

    def replay_fn(doc):
        return [v.to_json() for v in _replay(doc).violations]

    def minimise_fn(doc):
        want = doc["expected"]["oracle"]

        def test(sub, cfg=None):
            w = doc["world"] if cfg is None else dict(doc["world"], v2_config=cfg)
            try:
                return any(v.oracle == want for v in _replay(dict(doc, world=w, trace=sub)).violations)
            except Exception:  # noqa: BLE001
                return False

        if not test(doc["trace"]):
            return doc
        small = runner.ddmin(list(doc["trace"]), test, budget=60)
        cfg = doc["world"]["v2_config"]
        obs = runner.ddmin(list(cfg["observables"][1:]), lambda sub: test(small, dict(cfg, observables=cfg["observables"][:1] + sub)), budget=40)
        cfg2 = dict(cfg, observables=cfg["observables"][:1] + obs)
        if not test(small, cfg2):
            cfg2 = cfg
        out = dict(doc, world=dict(doc["world"], v2_config=cfg2), trace=small, original_length=len(doc["trace"]))
        res = _replay(out)
        v = [x for x in res.violations if x.oracle == want][0]
        out["expected"] = {"oracle": want, "msg": v.msg, "step": v.step}
        return out

    comps = {
        "real": ["pulser_simulation.QutipBackendV2 / QutipConfig / QutipState / QutipOperator / QutipEmulator (legacy twin), pulser.backend observables and Results, QuTiP solvers"],
        "model_or_stub": ["numpy recomputation of every observable from the stored state (simlib/emu2.py)", "owned numpy RNG stream and counter-derived uuid4"],
        "not_exercised": ["remote backends", "torch"],
    }
    return runner.CheckSpec(pid=pid, level=level, rule=rule, run_one=run_one, replay_fn=replay_fn, minimise_fn=minimise_fn, components=comps, known_matchers=known.MATCHERS, **kw)


def combine_n(pid, specs, pattern, **kw):
    """One check made of several engines; run index r goes to specs[pattern[r % len(pattern)]]."""

    def run_one(seed, run):
        k = pattern[run % len(pattern)]
        d = specs[k].run_one(seed, run)
        if "world" in d:
            d["world"] = dict(d["world"], _engine=k)
        return d

    def pick(doc):
        return specs[int(doc.get("world", {}).get("_engine", 0))]

    a = specs[0]
    return runner.CheckSpec(
        pid=pid,
        level=a.level,
        rule=" || ".join(sp.rule for sp in specs),
        run_one=run_one,
        replay_fn=lambda doc: pick(doc).replay_fn(doc),
        minimise_fn=lambda doc: (pick(doc).minimise_fn(doc) if pick(doc).minimise_fn else doc),
        components={k: sorted({x for sp in specs for x in sp.components.get(k, [])}) for k in ("real", "model_or_stub", "not_exercised")},
        known_matchers=known.MATCHERS,
        runs=kw.pop("runs", a.runs),
        wall_cap_s=kw.pop("wall_cap_s", a.wall_cap_s),
        assumptions=[x for sp in specs for x in sp.assumptions],
        expected_probes=[x for sp in specs for x in sp.expected_probes],
        **kw,
    )


def combine(pid, a, b, every=3, **kw):
    return combine_n(pid, [a, b], [0] * (every - 1) + [1], **kw)


def pool_spec(pid, rule, profile, **kw):
    from . import pool

    def run_one(seed, run):
        return runner.result_to_dict(pool.run_pool(pid, seed, run, profile), keep_trace=True)

    def _replay(doc):
        return pool.run_pool(pid, 0, 0, profile, doc=doc)

    def replay_fn(doc):
        return [v.to_json() for v in _replay(doc).violations]

    def minimise_fn(doc):
        want = doc["expected"]["oracle"]

        def test(sub):
            try:
                return any(v.oracle == want for v in _replay(dict(doc, trace=sub)).violations)
            except Exception:  # noqa: BLE001
                return False

        if not test(doc["trace"]):
            return doc
        small = runner.ddmin(list(doc["trace"]), test, budget=80)
        res = _replay(dict(doc, trace=small))
        v = [x for x in res.violations if x.oracle == want][0]
        return dict(doc, trace=res.trace, original_length=len(doc["trace"]), expected={"oracle": want, "msg": v.msg, "step": v.step})

    comps = {
        "real": ["constructors, equality, abstract-repr (de)serialisers and schema validation of devices, channels, EOM/DMM, registers, layouts, detuning maps, noise models, EmulationConfig/QutipConfig, observables, StateRepr/QutipState, OperatorRepr/QutipOperator, Results, SimConfig conversion"],
        "model_or_stub": ["deep fingerprints and the seeded constructor-actor scheduler (simlib/pool.py)", "counter-derived uuid4, owned numpy RNG"],
        "not_exercised": ["remote backends"],
    }
    return runner.CheckSpec(pid=pid, level="exploration", rule=rule, run_one=run_one, replay_fn=replay_fn, minimise_fn=minimise_fn, components=comps, known_matchers=known.MATCHERS, **kw)


def scen_spec(pid, rule, **kw):
    from . import scen

    def run_one(seed, run):
        return runner.result_to_dict(scen.run_scenario(pid, seed, run, {}), keep_trace=True)

    def replay_fn(doc):
        return [v.to_json() for v in scen.run_scenario(pid, 0, 0, {}, doc=doc).violations]

    comps = {
        "real": ["pulser.Sequence public API, pulser_simulation.QutipEmulator, SimConfig, simresults sampling, QuTiP solvers"],
        "model_or_stub": ["analytic values and RefProp (piecewise-constant expm propagation of the programmed pulses) in simlib/scen.py", "owned numpy RNG stream"],
        "not_exercised": [],
    }
    return runner.CheckSpec(pid=pid, level="exploration", rule=rule, run_one=run_one, replay_fn=replay_fn, minimise_fn=None, components=comps, known_matchers=known.MATCHERS, **kw)


def _build2():
    from . import emu

    _REG["C20"] = v2_spec(
        "C20",
        "exploration",
        "EMU-SIM V2 runs: a generated program (1-3 atoms, 2- and 3-level bases) + a generated QutipConfig (every default observable, several instances with tag suffixes, per-observable and default evaluation-time sets incl. 0, 1 and 'Full', sampling rates, initial state from amplitudes, noise models incl. dissipative => density matrices and stochastic => averaged density matrices) with StateResult always included; every stored value is recomputed with numpy from the stored state and the Hamiltonian at that time; result bookkeeping (one value per requested time, ascending, retrieval by observable/tag/attribute) and operator/state algebra on the run's objects are checked; non-trivial = mixed state or 3-level basis or >=2 interior evaluation times; distinct = distinct (register, program, configuration)",
        {"xy_p": 0.2, "n_max": 3, "bw_bias": 0.2, "only_prefix": "C20", "prog_len": 10},
        runs={"quick": 800, "thorough": 20000},
        assumptions=["the Hamiltonian used for energy observables is read from the emulator (its correctness is C05's business)", "BitStrings are judged by per-atom marginals at 6 sigma under the owned RNG"],
        expected_probes=["mixed_state_values", "three_level_values", "operator_construction_checked", "algebra_checked", "own_times_also_evaluated_at_default_times"],
    )
    c11_hist = emu_spec(
        "C11",
        "exploration",
        "EMU-SIM history part: the legacy emulator is driven through a seeded reconfiguration history (set_config with SPAM / doppler / amplitude / dissipative noise drawn with the owned RNG, add_config, reset_config, set_evaluation_times, set_initial_state, run); whenever it runs under a configuration without stochastic noise its states must equal those of a fresh emulator given that configuration directly (no state left behind by earlier noisy configurations)",
        {"xy_p": 0.2, "n_max": 3, "bw_bias": 0.2, "hist_min": 4, "hist_max": 8, "emu_ops": {"set_config": 4, "add_config": 0.7, "reset_config": 0.7, "run": 4, "set_evaluation_times": 0.7, "set_initial_state": 0.4}},
        lambda: emu.C11H(),
        assumptions=["stochastic configurations are not compared (different draws)"],
        expected_probes=["history_compared_under_noise"],
    )
    _REG["C11"] = v2_spec(
        "C11",
        "exploration",
        "EMU-SIM: same generated programs and configurations as C20, judged for physicality (norm / trace / Hermiticity / positivity of every stored state), purity without noise, and legacy == V2 (same accept/refuse class at construction, same states at the same times for non-stochastic configurations) for every duration, basis, idle period, evaluation-time set and sampling rate generated; non-trivial as C20",
        {"xy_p": 0.2, "n_max": 3, "bw_bias": 0.2, "only_prefix": "C11", "prog_len": 10},
        runs={"quick": 800, "thorough": 20000},
        assumptions=["solver tolerances: states compared at 1e-7 (legacy and V2 share the solver)", "analytic Rabi / zero-drive / bit-order scenarios are part of the thorough tier when built"],
        expected_probes=["legacy_v2_compared", "mixed_state_values", "three_level_values"],
    )
    c11_scen = scen_spec(
        "C11",
        "EMU-SIM scenarios with seeded parameters: resonant constant pulse on an isolated atom vs sin^2(Omega t/2) in every basis; all-zero drive leaves the state unchanged; single-excited product states sample to the bitstring with that bit set, in register order, with r/h/|1> -> 1; detection errors (epsilon, epsilon') shift the measured rate as configured (2e5 shots, exact binomial tail under the owned RNG); sampling distributions sum to one",
        assumptions=["analytic comparisons at 2e-3 (solver tolerance)"],
        expected_probes=[],
    )
    _REG["C11"] = combine_n("C11", [_REG["C11"], c11_hist, c11_scen], [0, 0, 1, 2], runs={"quick": 1600, "thorough": 40000})

    _c18_reg()
    _REG["C05"] = emu_spec(
        "C05",
        "exploration",
        "EMU-SIM: a small program (1-3 atoms, 2D/3D, shuffled atom order, every basis combination, XY with a magnetic field, SLM mask, DMM) is built with the SEQ-SIM actors; QutipEmulator.from_sequence is driven through a seeded history of set_config / add_config (noisy configurations drawn with the owned RNG) / run / set_evaluation_times / set_initial_state / reset_config; at t in {0, T} u slot boundaries +-1 u 8 seeded instants get_hamiltonian(t) is compared with RefHam (numpy kron in register order, documented state ordering, per-atom drive from RefRender) on the fresh emulator, after every reset_config and after noise-free steps; the sampling rate is a per-run knob (1, 0.5, 0.3, 0.12) and with a reduced rate the instants are moved to the nearest times the emulator kept; non-trivial = >=2 atoms and (>=2 channels or local addressing or SLM/DMM); distinct = distinct (register, program, emulator history)",
        {"xy_p": 0.3, "n_max": 3, "bw_bias": 0.5, "eom_w": 3, "vary_sampling_rate": True, "int_ids_p": 0.2},
        lambda: emu.C05(),
        runs={"quick": 1500, "thorough": 40000},
        assumptions=["per-atom drive (Omega, delta, phi) from RefRender; waveform samples from the real code", "the formula is asserted only at instants with at most one active drive per (atom, basis); others are counted and still checked for Hermiticity", "C6 read from the packaged table, C3 from the device"],
        expected_probes=["multi_atom_hamiltonian", "xy_hamiltonian", "dmm_in_hamiltonian", "checked_after_reset", "reduced_sampling_rate"],
    )
    c04_tmpl = tmpl_spec(
        "C04",
        "exploration",
        "TMPL-SIM part: parametrized templates (variables in arbitrary numeric positions, expressions, mappable registers) are persisted through the abstract repr / legacy JSON at seeded instants of a build history, restored, and original and restored template are built under the same assignments: the built sequences must be identical (or both refuse); the template's abstract repr must be schema-valid; the history continues on the restored template",
        {"mappable_p": 0.3, "lift_p": 0.55, "hist_len": 8, "only_prefix": "C04", "hist_kinds": {"build": 3, "bad": 1, "str": 0.3, "abstract": 0.5, "sibling": 0.5, "restart": 6, "built_restart": 3, "cache": 0.2}},
        assumptions=["AbstractReprError for constructs the format documents as unsupported is an accepted outcome"],
        expected_probes=["template_restart_abstract", "template_restart_legacy", "template_schema_validated"],
    )
    _REG["C04"] = combine("C04", _REG["C04"], c04_tmpl)
    c18_tmpl = tmpl_spec(
        "C18",
        "exploration",
        "TMPL-SIM part: a parametrized template (variables in arbitrary numeric positions; detuning maps configured before or after the first use of a variable, the same DMM twice on devices with reusable channels) is switched with strict=True to a device with the very same channels (rebuilt, optionally renamed) at seeded instants of a build history; the switched template, built under the same assignments, must equal the direct construction and the switch cannot be refused",
        {"mappable_p": 0.15, "lift_p": 0.5, "hist_len": 6, "only_prefix": "C18", "sibling_label": "C18", "sibling_kinds": ["switch_device"], "dmm_twice_p": 0.5, "late_dmm_p": 0.5, "hist_kinds": {"build": 2, "bad": 0.5, "str": 0.2, "abstract": 0.2, "sibling": 6, "restart": 0.5, "cache": 0.3}},
        assumptions=["the template part switches to an identical device only: perturbed devices are the SEQ-SIM part's business"],
        expected_probes=["sibling_build_switch_device"],
    )
    _REG["C18"] = combine_n("C18", [_REG["C18"], c18_tmpl], [0, 0, 0, 0, 0, 1])

    _REG["C17"] = pool_spec(
        "C17",
        "POOL-SIM: a pool of live objects of every class named in the property (devices with EOM/DMM/layouts/noise model, registers 2D/3D +- layout, layouts, detuning maps, noise models, EmulationConfig/QutipConfig with observables/states/operators, StateRepr/QutipState, OperatorRepr/QutipOperator, Results); a seeded scheduler interleaves, over 3 constructor actors, construct / persist-restore through the schema-validated abstract representation (the restored object joins the pool) / NoiseModel<->SimConfig conversion / read-only use incl. passing the object to other constructors / drop; after EVERY operation the deep fingerprint of every live object must be unchanged (aliasing invariant), restored == original, conversions preserve types and parameters, noise types are exactly those whose parameters were given; non-trivial = >=1 successful restore and >=3 classes alive; distinct = distinct operation histories",
        {"hist_min": 8, "hist_max": 22},
        runs={"quick": 1500, "thorough": 40000},
        assumptions=["PARTIAL: boundary-directed coverage of 'all valid parameter combinations' per class is not claimed (a per-input statement outside this technique); the machine samples them", "states and operators are persisted inside a configuration (their only serialised form)"],
        expected_probes=[],
    )
    c07_scen = scen_spec(
        "C07",
        "EMU-SIM Ramsey scenarios: pi/2 - phase shift phi delivered by a seeded mechanism (explicit shift, post_phase_shift, split over two shifts, index-based shift, shift made while another channel of the same basis exists) - pi/2 on an isolated atom, global or local channel, either basis; excitation probability vs cos^2(phi/2)",
        assumptions=["analytic comparison at 2e-3"],
        expected_probes=[],
    )
    _REG["C07"] = combine_n("C07", [_REG["C07"], c07_scen], [0, 0, 0, 0, 0, 0, 0, 1])
    c15_scen = scen_spec(
        "C15",
        "EMU-SIM drift scenarios: an EOM block (enable / delays / EOM pulses of seeded durations and phases / optional setpoint change / disable, all with correct_phase_drift=True, non-zero off-detuning, clock 1 or 4) on one atom; emulated excitation vs RefProp of the same pulses with zero off-detuning",
        assumptions=["comparison at 1e-2 (the emulator interpolates between 1 ns samples, smoothing the on/off detuning steps)"],
        expected_probes=[],
    )
    _REG["C15"] = combine_n("C15", [_REG["C15"], c15_scen], [0, 0, 0, 0, 0, 0, 0, 1])


def get(pid):
    if not _REG:
        _build()
        _build2()
    return _REG.get(pid)


def all_ids():
    if not _REG:
        _build()
        _build2()
    return sorted(_REG)
