"""Registry: property id -> CheckSpec."""
from __future__ import annotations

from . import actors as A
from . import engine, runner

COMPONENTS_SEQ = {
    "real": [
        "pulser.Sequence and its scheduler (_schedule.py)",
        "channels, devices, registers, pulses, waveforms (incl. Pulse.fall_time, modulation)",
        "sampler",
        "abstract-repr and legacy (de)serialisers",
    ],
    "model_or_stub": [
        "reference models (RefSched/RefPhase/RefType/RefRender) in simlib/oracles",
        "seeded interleaver and fault actor in simlib/engine.py",
    ],
    "not_exercised": ["remote/QPU backends", "interactive drawing"],
}


def seq_spec(pid, level, rule, profile, oracle_factory, nontrivial_fn=None, world_kw=None, world_fn=None, **kw):
    def run_one(seed, run, keep=True):
        res = engine.run_generated(pid, seed, run, profile, oracle_factory, world_kw=dict(world_kw or {}), nontrivial_fn=nontrivial_fn, world_fn=world_fn)
        return runner.result_to_dict(res, keep_trace=True)

    def replay_fn(doc):
        res = engine.run_trace(doc["world"], doc["trace"], profile, oracle_factory)
        return [v.to_json() for v in res.violations]

    def minimise_fn(doc):
        want = doc["expected"]["oracle"]

        def test(sub):
            res = engine.run_trace(doc["world"], sub, profile, oracle_factory)
            return any(v.oracle == want for v in res.violations)

        if not test(doc["trace"]):
            return doc
        small = runner.ddmin(list(doc["trace"]), test)
        res = engine.run_trace(doc["world"], small, profile, oracle_factory)
        v = [x for x in res.violations if x.oracle == want][0]
        out = dict(doc)
        out["trace"] = small
        out["original_length"] = len(doc["trace"])
        out["expected"] = {"oracle": want, "msg": v.msg, "step": v.step}
        return out

    return runner.CheckSpec(pid=pid, level=level, rule=rule, run_one=run_one, replay_fn=replay_fn, minimise_fn=minimise_fn, components=COMPONENTS_SEQ, **kw)


def estimate_hook(p_est=0.5, p_cache=0.3):
    """Before an add: ask for the estimate of the very same add (optionally
    with a cache flush in between) so that C03 can compare the two."""

    def hook(ctx, st, actor, op, snap, obr, fr):
        if op["op"] != "add" or op["ch"] not in snap.channels or snap.parametrized:
            return
        if obr.random() >= p_est:
            return
        est = {"op": "obs_estimate", "pulse": op["pulse"], "ch": op["ch"], "protocol": op.get("protocol", "min-delay")}
        st.step("observer", est)
        if fr.random() < p_cache:
            ctx.stats["fault/cache/configured"] += 1
            st.step("fault", {"op": "cache_clear"}, "cache/clear")

    return hook


_REG = {}


def _build():
    from .oracles import c02, c03

    _REG["C02"] = seq_spec(
        "C02",
        "exploration",
        "seeded SEQ-SIM runs (world, per-channel programs, interleaving, faults all from VERIF_SEED); a run is non-trivial if it has >=2 channels and >=2 automatically inserted delays; distinct = distinct concrete op traces",
        A.make_profile(),
        lambda: [c02.C02()],
        nontrivial_fn=c02.nontrivial,
        assumptions=["Pulse.fall_time of the real code is a trusted input to the expected pending-fall duration"],
        expected_probes=["pending_fall_time"],
    )


    _REG["C03"] = seq_spec(
        "C03",
        "exploration",
        "seeded SEQ-SIM runs on >=2 channels; every pulse-adding step is compared with RefSched (safety strict, minimality over 4 declared readings), estimate_added_delay issued right before the same add, align checked against pre-state ends; non-trivial = a conflict forced a delay that needed clock/min-duration rounding (or >=1 conflict delay and >=2 inserted delays); distinct = distinct concrete op traces",
        A.make_profile(
            n_channels=(2, 4),
            chan_ops={"add": 12, "delay": 2, "target": 3, "phase_shift": 2, "align": 3, "enable_eom": 2},
            w_fault=0.3,
            fault_kinds={"bad": 2, "restart": 1, "cache": 2},
            pre_op_hook=estimate_hook(),
            measure_p=0.05,
        ),
        lambda: [c03.C03()],
        nontrivial_fn=c03.nontrivial,
        world_kw={"bw_bias": 0.8},
        assumptions=["Pulse.fall_time of the real code is a trusted input", "scheduled phases are read from the SUT (phase arithmetic is C07's business)"],
        expected_probes=["conflict_forced_delay", "conflict_delay_rounded_up", "phase_jump_buffer_applied", "phase_barrier_applied", "estimate_then_add", "align_padded", "align_with_pending_fall"],
    )


def get(pid):
    if not _REG:
        _build()
    return _REG.get(pid)


def all_ids():
    if not _REG:
        _build()
    return sorted(_REG)
