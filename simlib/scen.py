"""EMU-SIM scenario runs: analytic / physical clauses of C11, C07 and C15.

Each run draws one scenario and its parameters from the run PRNG, builds the
sequence through the public API, emulates it and compares with the analytic
value or with RefProp (piecewise-constant propagation of the programmed pulses).
"""
from __future__ import annotations

import hashlib
import json
import math
import random
import warnings
from collections import Counter

import numpy as np

from . import env, gen as G, observe, world as W
from .engine import RunResult, Violation, stream

TWO_PI = 2 * math.pi


def _device(bases=("ground-rydberg", "digital", "XY"), eom=False, clock=1):
    chans = []
    if "ground-rydberg" in bases:
        c = {"id": "ryd_g", "cls": "Rydberg", "addr": "Global", "max_abs_detuning": None, "max_amp": None, "clock_period": clock, "min_duration": 1, "max_duration": None, "min_avg_amp": 0, "mod_bandwidth": None, "custom_phase_jump_time": None, "eom": None}
        if eom:
            c["mod_bandwidth"] = 8.0
            c["eom"] = {"mod_bandwidth": 40.0, "custom_buffer_time": None, "limiting_beam": "RED", "max_limiting_amp": 30 * TWO_PI, "intermediate_detuning": 700 * TWO_PI, "controlled_beams": ["BLUE", "RED"], "multiple_beam_control": True, "blue_shift_coeff": 1.0, "red_shift_coeff": 1.0}
        chans.append(c)
        chans.append(dict(c, id="ryd_l", addr="Local", min_retarget_interval=0, fixed_retarget_t=0, max_targets=None, eom=None, mod_bandwidth=None))
    if "digital" in bases:
        chans.append({"id": "ram_g", "cls": "Raman", "addr": "Global", "max_abs_detuning": None, "max_amp": None, "clock_period": clock, "min_duration": 1, "max_duration": None, "min_avg_amp": 0, "mod_bandwidth": None, "custom_phase_jump_time": None, "eom": None})
        chans.append({"id": "ram_l", "cls": "Raman", "addr": "Local", "max_abs_detuning": None, "max_amp": None, "clock_period": clock, "min_duration": 1, "max_duration": None, "min_avg_amp": 0, "mod_bandwidth": None, "custom_phase_jump_time": None, "min_retarget_interval": 0, "fixed_retarget_t": 0, "max_targets": None, "eom": None})
    if "XY" in bases:
        chans.append({"id": "mw_g", "cls": "Microwave", "addr": "Global", "max_abs_detuning": None, "max_amp": None, "clock_period": clock, "min_duration": 1, "max_duration": None, "min_avg_amp": 0, "mod_bandwidth": None, "custom_phase_jump_time": None, "eom": None})
    return {"kind": "virtual", "name": "Scen", "dimensions": 3, "rydberg_level": 70, "min_atom_distance": 1.0, "max_atom_num": None, "max_radial_distance": None, "interaction_coeff_xy": 3700.0, "supports_slm_mask": False, "max_sequence_duration": None, "channels": chans, "dmm": [], "reusable_channels": True}


BASIS_CH = {"ground-rydberg": ("ryd_g", "ryd_l"), "digital": ("ram_g", "ram_l"), "XY": ("mw_g", None)}
ONE_STATE = {"ground-rydberg": "r", "digital": "h", "XY": "d"}


def _pop_one(emu_results, basis, atom_index, n):
    """Population of the 'one' state of an atom in the final state."""
    st = emu_results.get_final_state()
    rho = st.full()
    if rho.shape[1] == 1:
        rho = rho @ rho.conj().T
    d = int(round(rho.shape[0] ** (1 / n)))
    # documented ordering: ground-rydberg [r, g], digital [g, h], XY [u, d]
    one_idx = {"ground-rydberg": 0, "digital": 1, "XY": 1}[basis]
    proj = np.zeros((d, d))
    proj[one_idx, one_idx] = 1.0
    op = np.array([[1.0]])
    for k in range(n):
        op = np.kron(op, proj if k == atom_index else np.eye(d))
    return float(np.trace(rho @ op).real)


def ref_prop_single(segments, one_is_b=True):
    """RefProp for one 2-level atom: segments = [(duration_ns, omega, delta, phi)].
    H = omega/2 (e^{-i phi}|a><b| + h.c.) - delta |b><b|; starts in |a>.
    Returns the population of |b>."""
    from scipy.linalg import expm

    psi = np.array([1.0 + 0j, 0.0])  # (a, b)
    for dur, om, de, ph in segments:
        H = np.array([[0.0, om / 2 * np.exp(-1j * ph)], [om / 2 * np.exp(1j * ph), -de]], dtype=complex)
        psi = expm(-1j * H * dur * 1e-3) @ psi
    return float(abs(psi[1]) ** 2)


SCENARIOS = {
    "C11": ["rabi", "zero_drive", "bit_order", "detection_errors", "sampling_dist", "v2_duration", "v2_duration", "state_prep", "leak_sampling"],
    "C07": ["ramsey"],
    "C15": ["drift"],
}


def run_scenario(prop: str, seed: int, run: int, profile: dict, doc=None) -> RunResult:
    env.fresh_run_state()
    observe.reset_run_caches()
    if doc is None:
        rng = stream(seed, prop, run, "world")
        kind = G.pick(rng, SCENARIOS[prop])
        params = GEN[kind](rng)
        spec = {"scenario": kind, "params": params}
    else:
        spec = doc["world"]["scenario_spec"]
        kind, params = spec["scenario"], spec["params"]
    stats: Counter = Counter()
    viols: list = []
    with warnings.catch_warnings():
        warnings.simplefilter("ignore")
        try:
            out = RUN[kind](params, stats)
        except Exception as e:  # noqa: BLE001
            import traceback

            raise env.HarnessError(f"scenario {kind} {params} crashed: {traceback.format_exc()[-1200:]}")
    for oid, msg in out or ():
        viols.append(Violation(oid, 0, msg))
    stats["steps"] = 1
    stats[f"scenario/{kind}"] += 1
    sig = hashlib.blake2b(json.dumps(spec, sort_keys=True).encode(), digest_size=8).hexdigest()
    return RunResult(
        world={"scenario_spec": spec},
        trace=[{"op": {"op": "scenario", "kind": kind}}],
        violations=viols,
        stats=stats,
        digest=sig + hashlib.blake2b(repr(sorted(stats.items())).encode(), digest_size=4).hexdigest(),
        sim_ns=int(stats.get("sim_ns", 0)),
        n_steps=1,
        ilv_sig=kind,
        state_sigs=frozenset(),
        nontrivial=True,
        trace_sig=sig,
    )


# ------------------------------------------------------------------ scenarios
def _seq(basis, n_atoms=1, spacing=60.0, eom=False, clock=1, pjt=None):
    from pulser import Sequence

    spec = _device(bases=(basis,), eom=eom, clock=clock)
    if pjt is not None:
        for c in spec["channels"]:
            c["custom_phase_jump_time"] = pjt
    dev = W.build_device(spec)
    ids = ["a", "b", "c"][:n_atoms]
    reg = W.build_register({"ids": ids, "coords": [[k * spacing, 0.0] for k in range(n_atoms)], "dim": 2})
    return Sequence(reg, dev), ids


def gen_rabi(rng):
    return {"basis": G.pick(rng, ["ground-rydberg", "digital", "XY"]), "omega": round(rng.uniform(1.0, 12.0), 4), "duration": rng.randint(20, 700), "phase": G.pick(rng, [0.0, 1.0, -2.0]), "sampling_rate": G.pick(rng, [1.0, 0.5])}


def run_rabi(p, stats):
    from pulser import Pulse
    from pulser_simulation import QutipEmulator

    seq, ids = _seq(p["basis"])
    seq.declare_channel("ch", BASIS_CH[p["basis"]][0])
    seq.add(Pulse.ConstantPulse(p["duration"], p["omega"], 0.0, p["phase"]), "ch")
    res = QutipEmulator.from_sequence(seq, sampling_rate=p["sampling_rate"]).run()
    got = _pop_one(res, p["basis"], 0, 1)
    # the drive acts on the samples at t = 0 .. duration-1: the last sample is
    # held until t = duration, so the pulse area is omega * duration
    exp = math.sin(p["omega"] * p["duration"] * 1e-3 / 2) ** 2
    stats["sim_ns"] += p["duration"]
    # the emulator samples the drive every ns: allow one sample of pulse area
    tol = 2e-3 + 0.55e-3 * p["omega"]
    if abs(got - exp) > tol:
        return [("C11/rabi", f"resonant constant pulse Omega={p['omega']} for {p['duration']} ns in {p['basis']}: excitation {got:.5f}, analytic sin^2(Omega t/2) = {exp:.5f}")]
    return []


def gen_v2dur(rng):
    lo, hi = G.pick(rng, [(16, 200), (200, 2000), (2000, 4100), (2000, 4100), (4100, 9000)])
    return {"basis": G.pick(rng, ["ground-rydberg", "digital", "XY"]), "omega": round(rng.uniform(0.5, 4.0), 4), "duration": rng.randint(lo, hi), "idle": G.pick(rng, [0, 0, rng.randint(16, 300)]), "eval": G.pick(rng, [[1.0], [0.0, 0.5, 1.0], [0.25, 1.0]]), "sampling_rate": G.pick(rng, [1.0, 1.0, 0.5])}


def run_v2dur(p, stats):
    """'for every sequence duration ... and choice of evaluation times': legacy
    emulator and V2 backend on one driven atom, any total duration."""
    from pulser import Pulse
    from pulser.backend import StateResult
    from pulser_simulation import QutipBackendV2, QutipConfig, QutipEmulator

    seq, ids = _seq(p["basis"])
    seq.declare_channel("ch", BASIS_CH[p["basis"]][0])
    if p["idle"]:
        seq.delay(p["idle"], "ch")
    seq.add(Pulse.ConstantPulse(p["duration"], p["omega"], 0.0, 0.0), "ch")
    T = p["idle"] + p["duration"]
    stats["sim_ns"] += 2 * T
    out = []
    exp = math.sin(p["omega"] * p["duration"] * 1e-3 / 2) ** 2
    tol = 2e-3 + 0.55e-3 * p["omega"]
    try:
        # the legacy emulator takes absolute times in us
        emu = QutipEmulator.from_sequence(seq, sampling_rate=p["sampling_rate"], evaluation_times=[x * T / 1000 for x in p["eval"]])
        lres = emu.run()
        lfin = lres.get_final_state().full()
    except Exception as e:  # noqa: BLE001
        return [("C11/legacy-run-raised", f"legacy emulator raised {type(e).__name__}: {str(e)[:120]} for a {T} ns sequence, evaluation times {p['eval']}")]
    times = [r.evaluation_time for r in lres._results] if hasattr(lres, "_results") else []
    if times and (max(times) > 1.0 + 1e-12 or min(times) < 0.0):
        out.append(("C11/legacy-times-outside-unit-interval", f"legacy results for a {T} ns sequence carry relative times {min(times)!r}..{max(times)!r}"))
    try:
        cfg = QutipConfig(observables=[StateResult(evaluation_times=p["eval"])], sampling_rate=p["sampling_rate"])
        vres = QutipBackendV2(seq, config=cfg).run()
        vt = vres.get_result_times("state")
        vfin = vres.get_result("state", vt[-1]).to_qobj().full()
    except Exception as e:  # noqa: BLE001
        out.append(("C11/v2-run-fails-where-legacy-runs", f"QutipBackendV2 raised {type(e).__name__}: {str(e)[:120]} for a {T} ns sequence (evaluation times {p['eval']}) that the legacy emulator runs"))
        return out
    if len(vt) != len(p["eval"]) or abs(vt[-1] - 1.0) > 1e-9:
        out.append(("C11/v2-times", f"V2 stored states at {vt} for requested evaluation times {p['eval']} ({T} ns)"))
    # as density matrices: a global phase is not a property of the state
    ra = lfin @ lfin.conj().T if lfin.shape[1] == 1 else lfin
    rb = vfin @ vfin.conj().T if vfin.shape[1] == 1 else vfin
    if np.abs(ra - rb).max() > 5e-4:
        out.append(("C11/legacy-v2-differ", f"final states of the legacy emulator and the V2 backend differ by {np.abs(ra - rb).max():.3g} for a {T} ns sequence"))
    one_idx = {"ground-rydberg": 0, "digital": 1, "XY": 1}[p["basis"]]
    got = float(abs(vfin[one_idx, 0]) ** 2)
    if abs(got - exp) > tol:
        out.append(("C11/rabi", f"V2: resonant constant pulse Omega={p['omega']} for {p['duration']} ns in {p['basis']}: excitation {got:.5f}, analytic {exp:.5f}"))
    stats["probe/v2_duration_sweep"] += 1
    if T >= 2000:
        stats["probe/v2_long_duration"] += 1
    return out


def gen_zero(rng):
    return {"basis": G.pick(rng, ["ground-rydberg", "digital", "XY"]), "n": rng.randint(1, 3), "duration": rng.randint(16, 900), "mode": G.pick(rng, ["delay", "zero-pulse"]), "spacing": G.pick(rng, [6.0, 20.0])}


def run_zero(p, stats):
    from pulser import Pulse
    from pulser_simulation import QutipEmulator

    seq, ids = _seq(p["basis"], p["n"], p["spacing"])
    seq.declare_channel("ch", BASIS_CH[p["basis"]][0])
    if p["mode"] == "delay":
        seq.delay(p["duration"], "ch")
        seq.add(Pulse.ConstantPulse(16, 0.0, 0.0, 0.0), "ch")
    else:
        seq.add(Pulse.ConstantPulse(p["duration"], 0.0, 0.0, 0.3), "ch")
    emu = QutipEmulator.from_sequence(seq)
    init = emu.initial_state.full()
    res = emu.run()
    fin = res.get_final_state().full()
    stats["sim_ns"] += p["duration"]
    if np.abs(fin - init).max() > 1e-6:
        return [("C11/zero-drive", f"all-zero drive for {p['duration']} ns on {p['n']} atoms ({p['basis']}): the state moved by {np.abs(fin - init).max():.3g}")]
    return []


def gen_bits(rng):
    n = rng.randint(2, 3)
    return {"basis": G.pick(rng, ["ground-rydberg", "digital", "XY"]), "n": n, "excited": rng.randrange(n), "shots": 200}


def run_bits(p, stats):
    import qutip
    from pulser import Pulse
    from pulser_simulation import QutipEmulator

    seq, ids = _seq(p["basis"], p["n"], 200.0)
    seq.declare_channel("ch", BASIS_CH[p["basis"]][0])
    # a detuning-only pulse: addresses the basis without moving populations
    seq.add(Pulse.ConstantPulse(16, 0.0, 1.0, 0.0), "ch")
    seq.measure(p["basis"])
    emu = QutipEmulator.from_sequence(seq)
    one_idx = {"ground-rydberg": 0, "digital": 1, "XY": 1}[p["basis"]]
    kets = [qutip.basis(2, one_idx if k == p["excited"] else 1 - one_idx) for k in range(p["n"])]
    emu.set_initial_state(qutip.tensor(kets))
    res = emu.run()
    np.random.seed(7)
    counts = res.sample_final_state(p["shots"])
    exp = "".join("1" if k == p["excited"] else "0" for k in range(p["n"]))
    out = []
    if counts.get(exp, 0) < p["shots"] - 1:
        out.append(("C11/bit-order", f"{p['basis']}: atom {p['excited']} of {p['n']} prepared in the state that reads 1: sampled {dict(counts)}, expected only {exp}"))
    dist = res[-1].sampling_dist
    if abs(sum(dist.values()) - 1.0) > 1e-9 or dist.get(exp, 0.0) < 1 - 1e-6:
        out.append(("C11/sampling-dist", f"sampling distribution {dist} for a product state reading {exp}"))
    return out


def gen_det(rng):
    return {"basis": G.pick(rng, ["ground-rydberg", "digital"]), "omega": round(rng.uniform(2.0, 10.0), 3), "duration": rng.randint(40, 400), "epsilon": G.pick(rng, [0.0, 0.02, 0.1]), "epsilon_prime": G.pick(rng, [0.0, 0.05, 0.2]), "shots": 200000, "np_seed": rng.getrandbits(31)}


def run_det(p, stats):
    from pulser import Pulse
    from pulser_simulation import QutipEmulator, SimConfig
    from scipy.stats import binom

    seq, ids = _seq(p["basis"])
    seq.declare_channel("ch", BASIS_CH[p["basis"]][0])
    seq.add(Pulse.ConstantPulse(p["duration"], p["omega"], 0.0, 0.0), "ch")
    seq.measure(p["basis"])
    emu = QutipEmulator.from_sequence(seq, config=SimConfig(noise="SPAM", eta=0.0, epsilon=p["epsilon"], epsilon_prime=p["epsilon_prime"]))
    res = emu.run()
    p1 = math.sin(p["omega"] * p["duration"] * 1e-3 / 2) ** 2
    np.random.seed(p["np_seed"])
    counts = res.sample_final_state(p["shots"])
    k1 = counts.get("1", 0)
    pm = p1 * (1 - p["epsilon_prime"]) + (1 - p1) * p["epsilon"]
    pval = min(binom.cdf(k1, p["shots"], pm), binom.sf(k1 - 1, p["shots"], pm))
    stats["sim_ns"] += p["duration"]
    stats["detection_error_samples"] += p["shots"]
    if pval < 1e-9:
        return [("C11/detection-errors", f"P(1)={p1:.4f}, epsilon={p['epsilon']}, epsilon'={p['epsilon_prime']}: measured 1 in {k1} of {p['shots']} shots, expected rate {pm:.5f} (binomial tail {pval:.2e})")]
    return []


def gen_prep(rng):
    p = _gen_prep(rng)
    if p["idle"]:
        p["runs"] = 70  # bounded runs: 2.5 us of idle time per trajectory
    return p


def _gen_prep(rng):
    return {"basis": G.pick(rng, ["ground-rydberg", "digital"]), "omega": round(rng.uniform(2.0, 10.0), 3), "duration": rng.randint(40, 400), "eta": G.pick(rng, [0.1, 0.3, 0.6]), "epsilon": G.pick(rng, [0.0, 0.05]), "epsilon_prime": G.pick(rng, [0.0, 0.1]), "runs": 150, "np_seed": rng.getrandbits(31), "idle": G.pick(rng, [0, 0, 2500])}


def run_prep(p, stats):
    """SPAM with a state-preparation error eta: a badly prepared atom does not
    take part in the dynamics and is measured as 0 (up to false positives)."""
    from pulser import Pulse
    from pulser_simulation import QutipEmulator, SimConfig
    from scipy.stats import binom

    seq, ids = _seq(p["basis"])
    seq.declare_channel("ch", BASIS_CH[p["basis"]][0])
    if p.get("idle"):
        seq.delay(p["idle"], "ch")  # an idle period before the drive
    seq.add(Pulse.ConstantPulse(p["duration"], p["omega"], 0.0, 0.0), "ch")
    seq.measure(p["basis"])
    np.random.seed(p["np_seed"])
    emu = QutipEmulator.from_sequence(seq, config=SimConfig(noise="SPAM", eta=p["eta"], epsilon=p["epsilon"], epsilon_prime=p["epsilon_prime"], runs=p["runs"], samples_per_run=1))
    res = emu.run()
    freq1 = float(res.results[-1].get("1", 0.0))
    shots = int(res.n_measures)
    k1 = int(round(freq1 * shots))
    p1 = math.sin(p["omega"] * p["duration"] * 1e-3 / 2) ** 2
    good = p1 * (1 - p["epsilon_prime"]) + (1 - p1) * p["epsilon"]
    pm = (1 - p["eta"]) * good + p["eta"] * p["epsilon"]
    pval = min(binom.cdf(k1, shots, pm), binom.sf(k1 - 1, shots, pm))
    stats["sim_ns"] += p["duration"] * p["runs"]
    stats["probe/state_preparation_errors"] += 1
    if pval < 1e-9:
        return [("C11/state-preparation-errors", f"eta={p['eta']}, epsilon={p['epsilon']}, epsilon'={p['epsilon_prime']}, P(1 | prepared)={p1:.4f}: measured 1 in {k1} of {shots} runs, expected rate {pm:.4f} (binomial tail {pval:.2e})")]
    return []


def gen_leak(rng):
    return {"basis": G.pick(rng, ["digital", "XY", "ground-rydberg"]), "omega": round(rng.uniform(3.0, 9.0), 3), "duration": rng.randint(150, 500), "rate": G.pick(rng, [1.0, 3.0]), "shots": 100000, "np_seed": rng.getrandbits(31)}


def run_leak(p, stats):
    """Leakage to the error state x: a measurement reports it as 0, like every
    state other than the basis' 'one' state."""
    import qutip
    from pulser import Pulse
    from pulser_simulation import QutipEmulator, SimConfig
    from scipy.stats import binom

    seq, ids = _seq(p["basis"])
    seq.declare_channel("ch", BASIS_CH[p["basis"]][0])
    seq.add(Pulse.ConstantPulse(p["duration"], p["omega"], 0.0, 0.0), "ch")
    seq.measure(p["basis"])
    # documented orderings with the error state last: (r, g, x), (g, h, x), (u, d, x)
    one_idx = {"ground-rydberg": 0, "digital": 1, "XY": 1}[p["basis"]]
    op = np.zeros((3, 3))
    op[2, one_idx] = 1.0  # the 'one' state leaks into x
    cfg = SimConfig(noise=("leakage", "eff_noise"), eff_noise_opers=[qutip.Qobj(op)], eff_noise_rates=[p["rate"]])
    emu = QutipEmulator.from_sequence(seq, config=cfg)
    res = emu.run()
    rho = res.get_final_state().full()
    if rho.shape != (3, 3):
        return [("C11/leakage-dimension", f"final state of a leakage run has shape {rho.shape}")]
    p_one, p_x = float(rho[one_idx, one_idx].real), float(rho[2, 2].real)
    np.random.seed(p["np_seed"])
    counts = res.sample_final_state(p["shots"])
    k1 = counts.get("1", 0)
    pval = min(binom.cdf(k1, p["shots"], min(max(p_one, 0.0), 1.0)), binom.sf(k1 - 1, p["shots"], min(max(p_one, 0.0), 1.0)))
    stats["sim_ns"] += p["duration"]
    if p_x > 0.05:
        stats["probe/leaked_population_sampled"] += 1
    # expectation values under detection errors use the same bit convention with
    # and without the error state: calibrated on a leakage-free run of this tree
    eps, epsp = 0.1, 0.2
    got = {}
    for leak in (False, True):
        kw = dict(noise=("SPAM",) + (("leakage", "eff_noise") if leak else ()), eta=0.0, epsilon=eps, epsilon_prime=epsp)
        if leak:
            kw.update(eff_noise_opers=[qutip.Qobj(op)], eff_noise_rates=[p["rate"]])
        try:
            r2 = QutipEmulator.from_sequence(seq, config=SimConfig(**kw)).run()
            rr = r2.get_final_state().full()
            rr = rr @ rr.conj().T if rr.shape[1] == 1 else rr
            idx = one_idx if leak else {"ground-rydberg": 0, "digital": 1, "XY": 1}[p["basis"]]
            p1 = float(rr[idx, idx].real)
            pm = p1 * (1 - epsp) + (1 - p1) * eps
            e = [float(np.real(r2.expect([qutip.basis(2, k) * qutip.basis(2, k).dag()])[0][-1])) for k in (0, 1)]
            got[leak] = (pm, e)
        except Exception as ex:  # noqa: BLE001
            stats[f"leak_expect_skipped/{type(ex).__name__}"] += 1
            got = {}
            break
    if got:
        pm0, e0 = got[False]
        ks = [k for k in (0, 1) if abs(e0[k] - pm0) < 1e-6]
        if len(ks) == 1:
            pm1, e1 = got[True]
            stats["probe/expect_under_detection_errors_with_leakage"] += 1
            if abs(e1[ks[0]] - pm1) > 1e-5:
                return [("C11/bitstring-convention", f"{p['basis']}: with detection errors (epsilon={eps}, epsilon'={epsp}) the expectation of reading 1 is {e1[ks[0]]:.5f} once the error state x is in the basis, expected {pm1:.5f} (same projector gives {e0[ks[0]]:.5f} = {pm0:.5f} without leakage)")]
    if pval < 1e-9:
        return [("C11/bitstring-convention", f"{p['basis']} with leakage: population of the 'one' state {p_one:.4f}, of x {p_x:.4f}; measured 1 in {k1} of {p['shots']} shots (binomial tail {pval:.2e}): x must read as 0")]
    return []


def gen_dist(rng):
    return {"basis": G.pick(rng, ["ground-rydberg", "digital", "XY"]), "n": rng.randint(1, 3), "omega": round(rng.uniform(2.0, 10.0), 3), "duration": rng.randint(40, 300)}


def run_dist(p, stats):
    from pulser import Pulse
    from pulser_simulation import QutipEmulator

    seq, ids = _seq(p["basis"], p["n"], 8.0)
    seq.declare_channel("ch", BASIS_CH[p["basis"]][0])
    seq.add(Pulse.ConstantPulse(p["duration"], p["omega"], 0.0, 0.0), "ch")
    res = QutipEmulator.from_sequence(seq, evaluation_times=0.5).run()
    out = []
    for r in res:
        d = r.sampling_dist
        if abs(sum(d.values()) - 1.0) > 1e-6 or any(len(k) != p["n"] for k in d) or any(v < -1e-12 for v in d.values()):
            out.append(("C11/sampling-dist", f"sampling distribution at t={r.evaluation_time} sums to {sum(d.values())!r}"))
            break
    stats["sim_ns"] += p["duration"]
    return out


def gen_ramsey(rng):
    return {
        "basis": G.pick(rng, ["ground-rydberg", "digital"]),
        "phi": round(rng.uniform(-7.0, 7.0), 4),
        "mechanism": G.pick(rng, ["explicit", "post_phase_shift", "split", "other_channel", "index"]),
        "omega": round(rng.uniform(3.0, 12.0), 4),
        "gap": G.pick(rng, [0, 16, 100]),
        "local": rng.random() < 0.5,
        # a channel with a phase-jump time; a leading 2 pi pulse (identity); the
        # closing pulse placed right at the channel's end
        "pjt": G.pick(rng, [None, None, 40]),
        "lead": rng.random() < 0.4,
        "proto": G.pick(rng, ["min-delay", "min-delay", "no-delay"]),
    }


def run_ramsey(p, stats):
    from pulser import Pulse
    from pulser_simulation import QutipEmulator

    seq, ids = _seq(p["basis"], 2, 300.0, pjt=p.get("pjt"))
    g, l = BASIS_CH[p["basis"]]
    if p["local"]:
        seq.declare_channel("ch", l, initial_target="a")
    else:
        seq.declare_channel("ch", g)
    # duration of a pi/2 pulse (area omega*t = pi/2), in whole ns
    t = max(4, int(round(math.pi / 2 / p["omega"] * 1e3)))
    om = math.pi / 2 / (t * 1e-3)
    half = Pulse.ConstantPulse(t, om, 0.0, 0.0)
    mech = p["mechanism"]
    basis = p["basis"]
    if p.get("lead"):
        seq.add(Pulse.ConstantPulse(4 * t, om, 0.0, 0.0), "ch")
        stats["probe/ramsey_with_leading_pulse"] += 1
    if mech == "post_phase_shift":
        seq.add(Pulse.ConstantPulse(t, om, 0.0, 0.0, post_phase_shift=p["phi"]), "ch")
    else:
        seq.add(half, "ch")
        targets = ["a"] if p["local"] else ids
        if mech == "explicit":
            seq.phase_shift(p["phi"], *targets, basis=basis)
        elif mech == "split":
            seq.phase_shift(p["phi"] * 0.3, *targets, basis=basis)
            seq.phase_shift(p["phi"] * 0.7, *targets, basis=basis)
        elif mech == "index":
            seq.phase_shift_index(p["phi"], *[ids.index(q) for q in targets], basis=basis)
        elif mech == "other_channel":
            # a shift made while another channel of the same basis exists
            seq.declare_channel("other", g if p["local"] else l, **({} if p["local"] else {"initial_target": "b"}))
            seq.phase_shift(p["phi"], *targets, basis=basis)
    if p["gap"]:
        seq.delay(p["gap"], "ch")
    seq.add(half, "ch", p.get("proto", "min-delay"))
    res = QutipEmulator.from_sequence(seq).run()
    got = _pop_one(res, basis, 0, 2)
    # two pi/2 pulses about axes differing by phi: P = cos^2(phi/2)
    exp = math.cos(p["phi"] / 2) ** 2
    stats["sim_ns"] += 2 * t + p["gap"]
    if abs(got - exp) > 2e-3:
        return [("C07/ramsey", f"pi/2 - phase shift {p['phi']} via {mech} - pi/2 in {basis} ({'local' if p['local'] else 'global'} channel): excitation {got:.5f}, cos^2(phi/2) = {exp:.5f}")]
    return []


def gen_drift(rng):
    return {
        "amp_on": round(rng.uniform(4.0, 10.0), 4),
        "det_on": G.pick(rng, [0.0, 2.0, -3.0]),
        "opt_off": G.pick(rng, [-20.0, -60.0, 10.0, -5.0]),
        "pulses": [[rng.randint(20, 200), G.pick(rng, [0.0, 1.0, -2.0, 0.5])] for _ in range(rng.randint(2, 4))],
        "delays": [G.pick(rng, [0, 16, 40, 120]) for _ in range(4)],
        "cpd_enable": True,
        "clock": G.pick(rng, [1, 4]),
        "modify_at": G.pick(rng, [None, None, 1]),
    }


def run_drift(p, stats):
    from pulser_simulation import QutipEmulator

    seq, ids = _seq("ground-rydberg", 1, eom=True, clock=p["clock"])
    seq.declare_channel("ch", "ryd_g")
    seq.enable_eom_mode("ch", p["amp_on"], p["det_on"], optimal_detuning_off=p["opt_off"], correct_phase_drift=True)
    amp = p["amp_on"]
    for k, (d, ph) in enumerate(p["pulses"]):
        if p["delays"][k % 4]:
            seq.delay(p["delays"][k % 4], "ch")
        if p["modify_at"] == k:
            amp = round(p["amp_on"] * 0.8, 4)
            seq.modify_eom_setpoint("ch", amp, p["det_on"], optimal_detuning_off=p["opt_off"], correct_phase_drift=True)
        seq.add_eom_pulse("ch", d, ph, correct_phase_drift=True)
    seq.disable_eom_mode("ch", correct_phase_drift=True)
    snap = observe.snapshot(seq)
    cs = snap.channels["ch"]
    doffs = {b[4] for b in cs.eom_blocks}
    if all(abs(x) < 1e-9 for x in doffs):
        stats["drift_zero_off_detuning"] += 1
    # reference: the same pulses (programmed phases) with zero off-detuning
    segs = []
    t = 0
    k = 0
    blocks = list(cs.eom_blocks)
    for s in cs.slots:
        if s.kind == "pulse":
            if s.ti > t:
                segs.append((s.ti - t, 0.0, 0.0, 0.0))
            rabi = float(observe._arr(s.pulse.amplitude.samples)[0])
            det = float(observe._arr(s.pulse.detuning.samples)[0])
            segs.append((s.tf - s.ti, rabi, det, p["pulses"][k][1]))
            k += 1
            t = s.tf
    exp = ref_prop_single(segs)
    res = QutipEmulator.from_sequence(seq).run()
    got = _pop_one(res, "ground-rydberg", 0, 1)
    stats["sim_ns"] += cs.end
    # the emulator interpolates between samples, which smooths the 1 ns steps
    # between on- and off-detuning: phase errors ~ |detuning_off| * 0.5 ns
    if abs(got - exp) > 1e-2:
        return [("C15/drift-populations", f"EOM block with drift correction (off-detunings {sorted(doffs)}, clock {p['clock']}): excitation {got:.5f}, the same pulses with zero off-detuning give {exp:.5f}")]
    return []


GEN = {"leak_sampling": gen_leak, "state_prep": gen_prep, "v2_duration": gen_v2dur, "rabi": gen_rabi, "zero_drive": gen_zero, "bit_order": gen_bits, "detection_errors": gen_det, "sampling_dist": gen_dist, "ramsey": gen_ramsey, "drift": gen_drift}
RUN = {"leak_sampling": run_leak, "state_prep": run_prep, "v2_duration": run_v2dur, "rabi": run_rabi, "zero_drive": run_zero, "bit_order": run_bits, "detection_errors": run_det, "sampling_dist": run_dist, "ramsey": run_ramsey, "drift": run_drift}
