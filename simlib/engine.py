"""SEQ-SIM engine: seeded interleaver, step loop, trace recording, replay."""
from __future__ import annotations

import hashlib
import os
import json
import random
import time
from collections import Counter
from dataclasses import dataclass, field
from typing import Any, Callable

from . import actors as A
from . import env, faults, gen as G, observe, ops, world as W


def stream(seed: int, prop: str, run: int, name: str) -> random.Random:
    h = hashlib.sha256(f"{seed}/{prop}/{run}/{name}".encode()).digest()
    return random.Random(int.from_bytes(h[:8], "big"))


@dataclass
class Violation:
    oracle: str
    step: int
    msg: str

    def to_json(self):
        return {"oracle": self.oracle, "step": self.step, "msg": self.msg}


@dataclass
class RunResult:
    world: dict
    trace: list
    violations: list
    stats: Counter
    digest: str
    sim_ns: int
    n_steps: int
    ilv_sig: str = ""
    state_sigs: frozenset = frozenset()
    nontrivial: bool = False
    trace_sig: str = ""
    error: str | None = None


class Ctx:
    def __init__(self, world: dict, profile: dict, oracles: list):
        self.world = world
        self.profile = profile
        self.sut = ops.SUT(world)
        self.qids = list(self.sut.register.qubit_ids)
        self.oracles = oracles
        self.stats: Counter = Counter()
        self.step_no = 0
        self.notes: dict[str, Any] = {}
        self.state_sigs: set = set()
        # (channel, ti, tf) of zero-amplitude pulses the *user* added, as
        # opposed to automatically inserted detuned delays of the same shape
        self.user_pulses: set = set()

    def probe(self, name: str, n: int = 1) -> None:
        self.stats["probe/" + name] += n


def _state_sig(snap: observe.Snap) -> tuple:
    out = []
    for cs in snap.channels.values():
        kinds = tuple(s.kind for s in cs.slots[-3:])
        out.append((cs.in_eom, cs.is_dmm, kinds, len(cs.slots) > 8))
    return (
        tuple(out),
        snap.flags["measured"],
        snap.flags["parametrized"],
        bool(snap.flags["slm_targets"]),
        snap.flags["in_xy"],
    )


class Stepper:
    """Executes ops one at a time against the SUT and runs the oracles."""

    def __init__(self, ctx: Ctx):
        self.ctx = ctx
        self.trace: list = []
        self.violations: list[Violation] = []
        self.h = hashlib.blake2b(digest_size=12)
        self.ilv = hashlib.blake2b(digest_size=8)
        self.cur = observe.snapshot(ctx.sut.seq)
        self.fatal = False
        self.nonfatal = tuple(ctx.profile.get("nonfatal", ()))
        self._seen_nonfatal: set = set()
        for o in ctx.oracles:
            o.begin(ctx, self.cur)

    def _record(self, oid: str, step: int, msg: str) -> None:
        if oid in self.nonfatal:
            if oid in self._seen_nonfatal:
                return
            self._seen_nonfatal.add(oid)
        else:
            self.fatal = True
        self.violations.append(Violation(oid, step, msg))

    def step(self, actor: str, op: dict, tag: str | None = None) -> ops.Outcome:
        ctx = self.ctx
        i = ctx.step_no
        pre = self.cur
        out = ops.issue(ctx.sut, op)
        post = observe.snapshot(ctx.sut.seq)
        rec = {"actor": actor, "op": op, "outcome": out.brief()}
        if tag:
            rec["tag"] = tag
        if not out.ok:
            rec["err"] = (out.exc_msg or "")[:160]
        self.trace.append(rec)
        ctx.stats["steps"] += 1
        if out.ok and op["op"] in ("add", "add_dmm_detuning", "add_eom_pulse"):
            cs = post.channels.get(op.get("ch"))
            if cs is not None and cs.slots and cs.slots[-1].kind == "ddelay":
                s_ = cs.slots[-1]
                ctx.user_pulses.add((cs.name, s_.ti, s_.tf))
        ctx.stats[f"op/{op['op']}/{out.status}"] += 1
        if tag:
            ctx.stats[f"fault/{tag.split('/')[0]}/fired"] += 1
        for o in ctx.oracles:
            try:
                vs = o.step(ctx, i, op, pre, out, post, tag)
            except env.HarnessError:
                raise
            except Exception as e:  # noqa: BLE001
                import traceback

                tb = traceback.extract_tb(e.__traceback__)
                if tb and os.path.realpath(tb[-1].filename).startswith(env.REPO_ROOT + os.sep):
                    # the exception was raised INSIDE the code under test, in a call
                    # the oracle makes on values the sequence accepted (fall times,
                    # modulation, sampling): that is the code's failure, not the harness'
                    pid = getattr(o, "prefix", type(o).__name__ + "/").split("/")[0]
                    vs = [(f"{pid}/sut-call-raised", f"{type(e).__name__}: {str(e)[:120]} raised by {os.path.basename(tb[-1].filename)}:{tb[-1].name} while the oracle examined the state after {op['op']}")]
                else:
                    raise env.HarnessError(
                        f"oracle {type(o).__name__} crashed at step {i} on "
                        f"{ops.op_brief(op)[:200]}: {traceback.format_exc()[-1500:]}"
                    )
            for oid, msg in vs or ():
                self._record(oid, i, msg)
        self.h.update(
            f"{i}|{actor}|{ops.op_brief(op)}|{out.brief()}|{post.digest()}\n".encode()
        )
        self.ilv.update(f"{actor}|{op['op']}|{out.status}\n".encode())
        ctx.state_sigs.add(_state_sig(post))
        self.cur = post
        ctx.step_no += 1
        return out

    def finish(self) -> None:
        for o in self.ctx.oracles:
            for oid, msg in o.end(self.ctx, self.cur) or ():
                self._record(oid, self.ctx.step_no, msg)


def _sim_ns(snap: observe.Snap) -> int:
    return max([c.end for c in snap.channels.values()] or [0])


def _result(ctx: Ctx, st: Stepper, nontrivial_fn) -> RunResult:
    tsig = hashlib.blake2b(
        json.dumps([r["op"] for r in st.trace], sort_keys=True, default=str).encode(),
        digest_size=8,
    ).hexdigest()
    return RunResult(
        world=ctx.world,
        trace=st.trace,
        violations=st.violations,
        stats=ctx.stats,
        digest=st.h.hexdigest(),
        sim_ns=_sim_ns(st.cur),
        n_steps=ctx.step_no,
        ilv_sig=st.ilv.hexdigest(),
        state_sigs=frozenset(ctx.state_sigs),
        nontrivial=bool(nontrivial_fn(ctx, st)) if nontrivial_fn else True,
        trace_sig=tsig,
    )


def fault_op(rng: random.Random, snap: observe.Snap, ctx: Ctx):
    kind = G.wpick(rng, ctx.profile["fault_kinds"])
    if kind == "bad":
        cat = faults.bad_calls(snap, ctx)
        if snap.flags["measured"]:
            cat = cat + faults.after_measure_calls(snap, ctx)
        if ctx.profile.get("fork_faults"):
            cat = cat + faults.fork_calls(snap, ctx)
        allow = ctx.profile.get("bad_filter")
        if allow:
            cat = [c for c in cat if c[0].split("/")[0] in allow]
        if not cat:
            return None, None
        tag, op = cat[rng.randrange(len(cat))]
        return "bad/" + tag, op
    if kind == "restart":
        if ctx.sut.restarts >= ctx.profile["max_restarts"]:
            return None, None
        k = G.wpick(rng, ctx.profile["restart_kinds"])
        if k == "restart_swap_register":
            # same qubit ids, two atoms trade places: anything keyed by qubit id
            # that should follow the atom's POSITION (detuning-map weights) must move
            reg = ctx.sut.world["register"]
            if len(reg["ids"]) < 2 or reg.get("mappable"):
                return None, None
            a, b = rng.sample(range(len(reg["ids"])), 2)
            coords = [list(c) for c in reg["coords"]]
            coords[a], coords[b] = coords[b], coords[a]
            return "restart/swap_register", {"op": "switch_register", "register": dict(reg, coords=coords)}
        op = {"op": k}
        if k == "restart_abstract":
            op["skip"] = rng.random() < 0.7
            if any(not isinstance(q, str) for q in ctx.qids):
                # the abstract representation stringifies integer qubit ids: the
                # run cannot go on with the restored object, so it is compared
                # as a separate one
                return "restart/roundtrip_abstract", {"op": "obs_roundtrip", "kind": "abstract", "skip": op["skip"]}
        return "restart/" + k, op
    if kind == "cache":
        return "cache/clear", {"op": "cache_clear"}
    if kind == "switch":
        from .oracles import c18

        if ctx.sut.restarts >= ctx.profile["max_restarts"]:
            return None, None
        if rng.random() < 0.75:
            spec, touched = c18.perturb_device(rng, ctx.sut.world["device"])
            return "switch/device", {"op": "switch_device", "device": spec, "strict": rng.random() < 0.6, "touched": touched}
        return "switch/register", {"op": "switch_register", "register": c18.perturb_register(rng, ctx.sut.world["register"])}
    return None, None


def run_generated(
    prop: str,
    seed: int,
    run: int,
    profile: dict,
    oracle_factory: Callable[[], list],
    world_kw: dict | None = None,
    nontrivial_fn=None,
    world_fn=None,
) -> RunResult:
    env.fresh_run_state()
    observe.reset_run_caches()
    wr = stream(seed, prop, run, "world")
    world = world_fn(wr) if world_fn else W.gen_world(wr, **(world_kw or {}))
    ctx = Ctx(world, profile, oracle_factory())
    st = Stepper(ctx)
    pr = stream(seed, prop, run, "programs")
    il = stream(seed, prop, run, "interleave")
    fr = stream(seed, prop, run, "faults")
    obr = stream(seed, prop, run, "observe")

    setup = A.SetupActor(pr, world, ctx.sut.device, ctx.sut.register, profile)
    lo, hi = profile["ops_per_channel"]
    chan_actors = [A.ChannelActor(n, pr.randint(lo, hi)) for n in dict.fromkeys(setup.chan_names)]
    late = A.LateActor(pr, setup, profile, ctx.sut.device)
    observer = A.ObserverActor()
    max_steps = profile["max_steps"]

    while ctx.step_no < max_steps and not st.fatal:
        snap = st.cur
        cands: list[tuple[Any, float]] = []
        if setup.runnable(snap):
            cands.append((setup, 6.0))
        run_ch = [a for a in chan_actors if a.runnable(snap)]
        for a in run_ch:
            cands.append((a, 1.0))
        if late.runnable(snap) and snap.channels:
            cands.append((late, 0.25))
        if not run_ch and not setup.runnable(snap):
            break
        cands.append((observer, profile["w_observer"]))
        cands.append(("fault", profile["w_fault"]))
        tot = sum(w for _, w in cands)
        r = il.random() * tot
        acc = 0.0
        chosen = cands[-1][0]
        for a, w in cands:
            acc += w
            if r < acc:
                chosen = a
                break
        if chosen == "fault":
            tag, op = fault_op(fr, snap, ctx)
            if op is None:
                continue
            ctx.stats[f"fault/{tag.split('/')[0]}/configured"] += 1
            st.step("fault", op, tag)
            continue
        rng = obr if chosen is observer else pr
        op = chosen.next_op(rng, snap, ctx)
        if op is None:
            continue
        hook = profile.get("pre_op_hook")
        if hook:
            hook(ctx, st, chosen, op, snap, obr, fr)
        st.step(getattr(chosen, "name", "?"), op)
    st.finish()
    return _result(ctx, st, nontrivial_fn)


def run_trace(
    world: dict,
    trace: list,
    profile: dict,
    oracle_factory: Callable[[], list],
    stop_on_violation: bool = True,
    want: str | None = None,
) -> RunResult:
    """Replay a concrete trace. No PRNG involved. Stops as soon as the wanted
    oracle id has fired (or, with no wanted id, at the first fatal violation)."""
    env.fresh_run_state()
    observe.reset_run_caches()
    ctx = Ctx(world, profile, oracle_factory())
    st = Stepper(ctx)
    for rec in trace:
        st.step(rec.get("actor", "replay"), rec["op"], rec.get("tag"))
        if not stop_on_violation:
            continue
        if want:
            # a generated run may record a second oracle's violation in the same
            # scheduler turn as a fatal one (an estimate issued by the pre-op hook,
            # then the add itself): replaying for `want` runs on until it fires
            if any(v.oracle == want for v in st.violations):
                break
        elif st.fatal:
            break
    st.finish()
    return _result(ctx, st, None)


def run_enumerated(
    prop: str,
    seed: int,
    run: int,
    profile: dict,
    oracle_factory,
    world_kw: dict | None = None,
    nontrivial_fn=None,
) -> RunResult:
    """C09 mode: a seeded base history; at EVERY position every constructible
    bad call and every read-only call is issued (enumerated, not sampled),
    restarts at seeded positions."""
    from .oracles import c09
    from .oracles.c02 import expected_fall_ends

    env.fresh_run_state()
    observe.reset_run_caches()
    wr = stream(seed, prop, run, "world")
    world = W.gen_world(wr, **(world_kw or {}))
    ctx = Ctx(world, profile, oracle_factory())
    st = Stepper(ctx)
    pr = stream(seed, prop, run, "programs")
    il = stream(seed, prop, run, "interleave")
    fr = stream(seed, prop, run, "faults")
    setup = A.SetupActor(pr, world, ctx.sut.device, ctx.sut.register, profile)
    lo, hi = profile["ops_per_channel"]
    chan_actors = [A.ChannelActor(n, pr.randint(lo, hi)) for n in dict.fromkeys(setup.chan_names)]
    late = A.LateActor(pr, setup, profile, ctx.sut.device)
    base = 0
    max_base = profile.get("max_base", 14)
    dev = ctx.sut.device

    # swarm: a fifth of the runs apply the catalogues at a seeded SUBSET of
    # positions and entries instead of everywhere (see probes())
    sparse = fr.random() < profile.get("sparse_p", 0.2)
    ctx.stats["runs_sparse" if sparse else "runs_fully_enumerated"] += 1

    def probes():
        snap = st.cur
        # biased-state probes (evidence)
        for cs in snap.channels.values():
            if not snap.parametrized and cs.slots and max(expected_fall_ends(cs)) > cs.end:
                ctx.probe("state_pending_fall")
            if cs.in_eom:
                ctx.probe("state_open_eom")
            if cs.waiting_first_pulse:
                ctx.probe("state_slm_pending")
            if dev.max_sequence_duration is not None and dev.max_sequence_duration - cs.end < 400:
                ctx.probe("state_near_max_seq")
        if snap.flags["measured"]:
            ctx.probe("state_measured")
        if snap.parametrized:
            return
        cat = faults.bad_calls(snap, ctx)
        if snap.flags["measured"]:
            cat = cat + faults.after_measure_calls(snap, ctx)
        if profile.get("fork_faults"):
            cat = cat + faults.fork_calls(snap, ctx)
        obs = c09.observer_catalogue(st.cur, ctx, fr)
        if sparse:
            # hidden state left behind by ONE query or refused call can only go
            # stale if the same query is not repeated at the next position
            cat = [c for c in cat if fr.random() < 0.25] if fr.random() < 0.5 else []
            obs = [o for o in obs if fr.random() < 0.3] if fr.random() < 0.6 else []
        ctx.stats["enumerated_bad_calls"] += len(cat)
        for tag, op in cat:
            ctx.stats["fault/bad/configured"] += 1
            st.step("fault", op, "bad/" + tag)
            if st.fatal:
                return
        for op in obs:
            ctx.stats["fault/observe/configured"] += 1
            st.step("observer", op, "observe/" + op["op"])
            if st.fatal:
                return
        if fr.random() < profile.get("draw_p", 0.03):
            st.step("observer", {"op": "obs_draw", "mode": "input+output", "shifts": True}, "observe/obs_draw")
        if fr.random() < profile.get("restart_p", 0.35) and ctx.sut.restarts < profile["max_restarts"]:
            k = G.wpick(fr, profile["restart_kinds"])
            if k == "restart_abstract" and any(not isinstance(q, str) for q in ctx.qids):
                k = "restart_legacy"  # the abstract representation stringifies integer ids
            op = {"op": k}
            if k == "restart_abstract":
                op["skip"] = fr.random() < 0.8
            ctx.stats["fault/restart/configured"] += 1
            st.step("fault", op, "restart/" + k)

    probes()
    while base < max_base and not st.fatal:
        snap = st.cur
        cands = []
        if setup.runnable(snap):
            cands.append((setup, 6.0))
        run_ch = [a for a in chan_actors if a.runnable(snap)]
        cands += [(a, 1.0) for a in run_ch]
        if late.runnable(snap) and snap.channels:
            cands.append((late, 0.4))
        if not cands or (not run_ch and not setup.runnable(snap)):
            break
        tot = sum(w for _, w in cands)
        r = il.random() * tot
        acc = 0.0
        chosen = cands[-1][0]
        for a, w in cands:
            acc += w
            if r < acc:
                chosen = a
                break
        op = chosen.next_op(pr, snap, ctx)
        if op is None:
            continue
        st.step(getattr(chosen, "name", "?"), op)
        base += 1
        ctx.stats["base_calls"] += 1
        if not st.fatal:
            probes()
    st.finish()
    return _result(ctx, st, nontrivial_fn)


def run_walk(
    prop: str,
    seed: int,
    run: int,
    profile: dict,
    oracle_factory,
    actors_fn,
    world_fn=None,
    world_kw: dict | None = None,
    nontrivial_fn=None,
) -> RunResult:
    """Generic loop: a list of (actor, weight) built by actors_fn(ctx, rng)."""
    env.fresh_run_state()
    observe.reset_run_caches()
    wr = stream(seed, prop, run, "world")
    world = world_fn(wr) if world_fn else W.gen_world(wr, **(world_kw or {}))
    ctx = Ctx(world, profile, oracle_factory())
    st = Stepper(ctx)
    pr = stream(seed, prop, run, "programs")
    il = stream(seed, prop, run, "interleave")
    actors = actors_fn(ctx, pr)
    while ctx.step_no < profile["max_steps"] and not st.fatal:
        snap = st.cur
        cands = [(a, w) for a, w in actors if a.runnable(snap)]
        if not cands:
            break
        tot = sum(w for _, w in cands)
        r = il.random() * tot
        acc = 0.0
        chosen = cands[-1][0]
        for a, w in cands:
            acc += w
            if r < acc:
                chosen = a
                break
        op = chosen.next_op(pr, snap, ctx)
        if op is None:
            continue
        st.step(getattr(chosen, "name", "?"), op)
    st.finish()
    return _result(ctx, st, nontrivial_fn)
