"""Self-tests of the simulator: determinism across interpreters/hash seeds/worker counts."""
from __future__ import annotations

import hashlib
import os
import subprocess
import sys
from concurrent.futures import ProcessPoolExecutor
import multiprocessing as mp

from . import checks, env


def _digests(args):
    pid, seed, idxs = args
    spec = checks.get(pid)
    out = []
    for r in idxs:
        d = spec.run_one(seed, r)
        out.append((r, d["digest"], len(d.get("violations", ()))))
    return out


def digest_batch(pid: str, seed: int, n: int, workers: int) -> str:
    chunks = [list(range(a, min(a + 10, n))) for a in range(0, n, 10)]
    res = []
    if workers <= 1:
        for c in chunks:
            res += _digests((pid, seed, c))
    else:
        with ProcessPoolExecutor(max_workers=workers, mp_context=mp.get_context("fork")) as ex:
            for part in ex.map(_digests, [(pid, seed, c) for c in chunks]):
                res += part
    res.sort()
    return "\n".join(f"{r} {d} {v}" for r, d, v in res)


def main(target: str, a) -> int:
    if target == "selftest-digest":
        # internal: print digests for one configuration
        pid = os.environ["ST_PID"]
        n = int(os.environ.get("ST_N", "60"))
        w = int(os.environ.get("ST_W", "1"))
        print(digest_batch(pid, a.seed, n, w))
        return 0
    if target == "selftest-determinism":
        pids = os.environ.get("ST_PIDS", "").split(",") if os.environ.get("ST_PIDS") else checks.all_ids()
        n = a.runs or 120
        bad = 0
        for pid in pids:
            ref = None
            for hs, w in (("0", 1), ("0", 16), ("1", 4), ("987654", 16), ("0", 1)):
                envv = dict(os.environ, PYTHONHASHSEED=hs, ST_PID=pid, ST_N=str(n), ST_W=str(w))
                p = subprocess.run([os.path.join(env.VERIF_ROOT, "check"), "selftest-digest", "--seed", str(a.seed)], env=envv, capture_output=True, text=True)
                if p.returncode != 0:
                    print(f"HARNESS-ERROR: digest run failed for {pid}: {p.stdout[-500:]} {p.stderr[-1500:]}")
                    return env.EXIT_HARNESS
                h = hashlib.sha256(p.stdout.encode()).hexdigest()[:16]
                if ref is None:
                    ref, ref_out = h, p.stdout
                elif h != ref:
                    bad += 1
                    a_l, b_l = ref_out.splitlines(), p.stdout.splitlines()
                    diff = [(x, y) for x, y in zip(a_l, b_l) if x != y][:5]
                    print(f"NONDETERMINISM {pid}: PYTHONHASHSEED={hs} workers={w} differs: {diff}")
            print(f"{pid}: {n} runs x 5 configurations -> digest {ref} {'OK' if not bad else 'MISMATCH'}", flush=True)
        return env.EXIT_HARNESS if bad else 0
    print("unknown selftest", target)
    return env.EXIT_HARNESS
