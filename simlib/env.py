"""Environment guard: which tree is under test, cache control, exit codes."""
from __future__ import annotations

import os
import sys
import warnings

EXIT_OK = 0
EXIT_VIOLATION = 1
EXIT_HARNESS = 2

VERIF_ROOT = os.path.dirname(os.path.dirname(os.path.abspath(__file__)))
REPO_ROOT = os.path.realpath(os.environ.get("VERIF_REPO", "/repo"))
# evidence/ and replays/ go under VERIF_OUT (default: /verif itself); only the
# seeded-change harness redirects it, so that parallel runs against scratch
# worktrees never touch the evidence of the registered checks.
OUT_ROOT = os.environ.get("VERIF_OUT") or VERIF_ROOT


class HarnessError(Exception):
    """Raised when the harness itself (not Pulser) is at fault."""


def assert_import_root() -> None:
    """Refuse to run against anything but the tree named by VERIF_REPO."""
    import pulser
    import pulser_simulation

    for mod in (pulser, pulser_simulation):
        path = os.path.realpath(mod.__file__)
        if not path.startswith(REPO_ROOT + os.sep):
            raise HarnessError(
                f"{mod.__name__} imported from {path}, expected under "
                f"{REPO_ROOT}; run through ./check"
            )


_CACHE_HANDLES = None


def _cache_handles():
    global _CACHE_HANDLES
    if _CACHE_HANDLES is None:
        from pulser.waveforms import Waveform

        handles = [
            Waveform.modulation_buffers,
            Waveform._modulated_samples,
        ]
        _CACHE_HANDLES = [h for h in handles if hasattr(h, "cache_clear")]
    return _CACHE_HANDLES


def clear_caches() -> int:
    """Flush every process-global value cache of the code under test."""
    n = 0
    for h in _cache_handles():
        h.cache_clear()
        n += 1
    return n


def cache_sizes() -> list[int]:
    return [h.cache_info().currsize for h in _cache_handles()]


def quiet() -> None:
    warnings.simplefilter("ignore")


def fresh_run_state() -> None:
    """Called at the start of every simulated run (replay purity)."""
    clear_caches()
    warnings.resetwarnings()
    warnings.simplefilter("ignore")


def die_harness(msg: str) -> "None":
    print(f"HARNESS-ERROR: {msg}", flush=True)
    sys.exit(EXIT_HARNESS)
