"""Batch runner: process pool, merge, minimise, replay files, evidence."""
from __future__ import annotations

import faulthandler
import hashlib
import json
import multiprocessing as mp
import os
import subprocess
import sys
import time
from collections import Counter
from concurrent.futures import ProcessPoolExecutor, as_completed
from dataclasses import dataclass, field
from typing import Any, Callable

from . import env

PER_RUN_WALL_S = 120


@dataclass
class CheckSpec:
    pid: str
    level: str
    rule: str
    # run_one(seed, run_idx) -> dict (see engine_result_to_dict)
    run_one: Callable[[int, int], dict]
    # replay_fn(replay_doc) -> list[{"oracle","step","msg"}]
    replay_fn: Callable[[dict], list]
    runs: dict = field(default_factory=lambda: {"quick": 8000, "thorough": 250000})
    wall_cap_s: dict = field(default_factory=lambda: {"quick": 120, "thorough": 1500})
    assumptions: list = field(default_factory=list)
    components: dict = field(default_factory=dict)
    minimise_fn: Callable | None = None
    expected_probes: list = field(default_factory=list)
    extra_coverage: Callable | None = None
    known_matchers: dict = field(default_factory=dict)


def result_to_dict(res, keep_trace: bool) -> dict:
    """Compact, picklable summary of an engine RunResult."""
    d = {
        "violations": [v.to_json() for v in res.violations],
        "stats": dict(res.stats),
        "digest": res.digest,
        "sim_ns": res.sim_ns,
        "n_steps": res.n_steps,
        "ilv_sig": res.ilv_sig,
        "state_sigs": [hashlib.blake2b(repr(s).encode(), digest_size=6).hexdigest() for s in res.state_sigs],
        "nontrivial": res.nontrivial,
        "trace_sig": res.trace_sig,
    }
    if keep_trace or res.violations:
        d["world"] = res.world
        d["trace"] = res.trace
    return d


_SPEC: CheckSpec | None = None


def _worker(args):
    seed, idxs, keep_every = args
    faulthandler.enable()
    out = []
    for r in idxs:
        faulthandler.dump_traceback_later(PER_RUN_WALL_S, exit=True)
        t0 = time.time()
        try:
            d = _SPEC.run_one(seed, r)
        except env.HarnessError as e:
            d = {"harness_error": str(e)}
        except Exception as e:  # noqa: BLE001
            import traceback

            d = {"harness_error": f"run {r}: {traceback.format_exc()[-2000:]}"}
        finally:
            faulthandler.cancel_dump_traceback_later()
        d["run"] = r
        d["chunk_before"] = [x for x in idxs if x < r]
        d["wall"] = time.time() - t0
        if "trace" in d and not d.get("violations") and (r % keep_every):
            d.pop("trace", None)
            d.pop("world", None)
        out.append(d)
    return out


def ddmin(items: list, test: Callable[[list], bool], budget: int = 400) -> list:
    """Delta debugging to a 1-minimal sublist for which test() stays True."""
    n = 2
    calls = 0
    while len(items) >= 2 and calls < budget:
        size = max(1, len(items) // n)
        chunks = [items[i : i + size] for i in range(0, len(items), size)]
        reduced = False
        for k in range(len(chunks)):
            cand = [x for j, c in enumerate(chunks) if j != k for x in c]
            calls += 1
            if cand and test(cand):
                items = cand
                n = max(n - 1, 2)
                reduced = True
                break
        if not reduced:
            if size == 1:
                break
            n = min(len(items), n * 2)
    # final single-removal sweep
    k = 0
    while k < len(items) and len(items) > 1 and calls < budget * 2:
        cand = items[:k] + items[k + 1 :]
        calls += 1
        if test(cand):
            items = cand
        else:
            k += 1
    return items


def load_known_findings() -> list:
    p = os.path.join(env.VERIF_ROOT, "known_findings.json")
    if not os.path.exists(p):
        return []
    with open(p) as f:
        doc = json.load(f)
    return [e for e in doc.get("findings", []) if e.get("status") == "known"]


def match_known(spec: CheckSpec, replay_doc: dict, known: list) -> dict | None:
    for e in known:
        if e["property"] != spec.pid or e["oracle"] != replay_doc["expected"]["oracle"]:
            continue
        fn = spec.known_matchers.get(e["matcher"])
        if fn is None:
            continue
        try:
            if fn(replay_doc, e.get("params", {})):
                return e
        except Exception:  # noqa: BLE001
            continue
    return None


def write_replay(spec: CheckSpec, seed: int, run: int, doc: dict) -> str:
    d = os.path.join(env.OUT_ROOT, "replays")
    os.makedirs(d, exist_ok=True)
    oid = doc["expected"]["oracle"].replace("/", "_")
    path = os.path.join(d, f"{oid}-{seed}-{run}.json")
    with open(path, "w") as f:
        json.dump(doc, f, indent=1, default=str)
    return path


def confirm_run_sequence(spec: CheckSpec, seed: int, run: int, before: list, oid: str, msg: str):
    """Shortest tail of `before` + [run] that reproduces `oid` in a fresh interpreter."""
    d = os.path.join(env.OUT_ROOT, "replays")
    os.makedirs(d, exist_ok=True)
    path = os.path.join(d, f"{oid.replace('/', '_')}-{seed}-{run}-sequence.json")
    tried = set()
    n = 1
    while before:
        tail = before[-n:]
        if tuple(tail) in tried:
            break
        tried.add(tuple(tail))
        doc = {"property": spec.pid, "kind": "run-sequence", "seed": seed, "runs": tail + [run], "expected": {"oracle": oid, "msg": msg},
               "note": "state carried from one run to the next inside one interpreter: the listed runs are executed in order, the last one must violate"}
        with open(path, "w") as f:
            json.dump(doc, f, indent=1)
        if confirm_replay(spec, path):
            return path
        if n >= len(before):
            break
        n = min(len(before), n * 2)
    if os.path.exists(path):
        os.remove(path)
    return None


def confirm_replay(spec: CheckSpec, path: str) -> bool:
    """Replay in a fresh interpreter; must reproduce the same oracle id."""
    p = subprocess.run(
        [os.path.join(env.VERIF_ROOT, "check"), spec.pid, "--replay", path],
        capture_output=True,
        text=True,
        timeout=600,
    )
    return p.returncode == env.EXIT_VIOLATION


def run_check(spec: CheckSpec, tier: str, seed: int, workers: int | None = None, runs_override: int | None = None) -> int:
    global _SPEC
    _SPEC = spec
    t0 = time.time()
    workers = workers or int(os.environ.get("VERIF_WORKERS", "0")) or min(16, os.cpu_count() or 4)
    n_runs = runs_override or int(os.environ.get("VERIF_RUNS", "0")) or spec.runs[tier]
    cap = float(os.environ.get("VERIF_WALL_CAP", "0")) or spec.wall_cap_s[tier]
    chunk = max(1, min(50, n_runs // (workers * 8) or 1))
    keep_every = max(1, n_runs // 5)
    tasks = [
        (seed, list(range(a, min(a + chunk, n_runs))), keep_every)
        for a in range(0, n_runs, chunk)
    ]
    results: dict[int, dict] = {}
    harness_errors: list[str] = []
    ctx = mp.get_context("fork")
    timed_out = False
    with ProcessPoolExecutor(max_workers=workers, mp_context=ctx) as ex:
        futs = {}
        it = iter(tasks)
        # submit lazily so that the wall cap can stop the batch
        for _ in range(workers * 2):
            t = next(it, None)
            if t is None:
                break
            futs[ex.submit(_worker, t)] = t
        while futs:
            done = next(as_completed(list(futs)))
            t = futs.pop(done)
            try:
                for d in done.result():
                    if "harness_error" in d:
                        harness_errors.append(d["harness_error"])
                    results[d["run"]] = d
            except Exception as e:  # noqa: BLE001 - worker died
                harness_errors.append(f"worker died on runs {t[1][:1]}..: {e!r}")
                break
            if time.time() - t0 > cap:
                timed_out = True
                continue
            nt = next(it, None)
            if nt is not None:
                futs[ex.submit(_worker, nt)] = nt
    if harness_errors:
        print("HARNESS-ERROR:", harness_errors[0][:3000], flush=True)
        return env.EXIT_HARNESS

    order = sorted(results)
    stats: Counter = Counter()
    ilv, states, traces_nt, traces_all = set(), set(), set(), set()
    sim_ns = 0
    samples = []
    viol_runs = []
    for r in order:
        d = results[r]
        stats.update(d.get("stats", {}))
        ilv.add(d.get("ilv_sig"))
        states.update(d.get("state_sigs", ()))
        traces_all.add(d.get("trace_sig"))
        if d.get("nontrivial"):
            traces_nt.add(d.get("trace_sig"))
        sim_ns += d.get("sim_ns", 0)
        if d.get("violations"):
            viol_runs.append(r)
        elif "trace" in d and len(samples) < 4:
            samples.append({"run": r, "world": d["world"], "trace": d["trace"][:25]})

    known = load_known_findings()
    reported: list[tuple[str, str]] = []
    known_hits: dict[str, int] = {}
    seen_oracles: set = set()
    min_count: dict = {}
    n_viol = 0
    pairs = []
    for r in viol_runs:
        seen_here = set()
        for v in results[r]["violations"]:
            if v["oracle"] not in seen_here:
                seen_here.add(v["oracle"])
                pairs.append((r, v))
    for r, v in pairs:
        d = results[r]
        oid = v["oracle"]
        doc = {
            "property": spec.pid,
            "seed": seed,
            "run": r,
            "world": d["world"],
            "trace": d["trace"],
            "expected": {"oracle": oid, "msg": v["msg"]},
        }
        if oid in seen_oracles and len(reported) >= 1:
            # same oracle id again: minimise only the first few of a kind
            if sum(1 for o, _ in reported if o == oid) >= 2 or oid in known_hits:
                if oid in known_hits:
                    # still need to know whether it is the known one
                    pass
                else:
                    n_viol += 1
                    continue
        seen_oracles.add(oid)
        hit = None
        if min_count.get(oid, 0) >= 8:
            # this oracle id was minimised often enough: a structural match of
            # the raw history with an already-hit finding is accepted
            raw = dict(doc)
            raw["expected"] = dict(doc["expected"], step=v["step"])
            hit = match_known(spec, raw, [e for e in known if e["id"] in known_hits])
        if hit is None and spec.minimise_fn is not None:
            min_count[oid] = min_count.get(oid, 0) + 1
            try:
                doc = spec.minimise_fn(doc)
            except Exception as e:  # noqa: BLE001
                print(f"NOTE: minimisation failed for run {r}: {e!r}", flush=True)
        if hit is None:
            hit = match_known(spec, doc, known)
        if hit is not None:
            known_hits[hit["id"]] = known_hits.get(hit["id"], 0) + 1
            continue
        n_viol += 1
        if len(reported) < 6:
            path = write_replay(spec, seed, r, doc)
            ok = confirm_replay(spec, path)
            if not ok:
                # The run does not fail on its own in a fresh interpreter: does it
                # fail after the runs that preceded it in its worker process? Then
                # the code under test carries state from one run to the next
                # (module-level caches, class attributes), and the replay file is
                # the shortest tail of predecessor runs that reproduces it.
                seq_path = confirm_run_sequence(spec, seed, r, d.get("chunk_before", []), oid, v["msg"])
                if seq_path is None:
                    print(f"HARNESS-ERROR: replay {path} did not reproduce in a fresh interpreter", flush=True)
                    return env.EXIT_HARNESS
                os.remove(path)
                path = seq_path
            reported.append((oid, path))
            print(f"VIOLATION property={spec.pid} replay={path}", flush=True)
            print(f"  oracle={oid} seed={seed} run={r} steps={len(doc['trace'])}: {doc['expected']['msg'][:300]}", flush=True)
    for e in known:
        if e["property"] == spec.pid and e["id"] in known_hits:
            print(f"KNOWN-FINDING: property={spec.pid} {e['id']}: {e['what']} (hit in {known_hits[e['id']]} runs)", flush=True)

    wall = time.time() - t0
    probes = {k[6:]: v for k, v in stats.items() if k.startswith("probe/")}
    for p in spec.expected_probes:
        probes.setdefault(p, 0)
    zero = [p for p, c in probes.items() if c == 0]
    faults_cfg = {k: v for k, v in stats.items() if k.startswith("fault/")}
    opc = {k: v for k, v in stats.items() if k.startswith("op/")}
    n_done = len(order)
    cov = {
        "evaluations": n_done,
        "distinct_nontrivial": len(traces_nt),
        "rule": spec.rule,
        "samples": samples or [{"note": "no violation-free sample trace kept"}],
        "runs_requested": n_runs,
        "stopped_by_wall_cap": timed_out,
        "steps": stats.get("steps", 0),
        "calls_ok": sum(v for k, v in opc.items() if k.endswith("/ok")),
        "calls_refused": sum(v for k, v in opc.items() if k.endswith("/raised")),
        "simulated_time_ns": sim_ns,
        "runs_per_hour": int(n_done / wall * 3600) if wall > 0 else 0,
        "distinct_traces": len(traces_all),
        "distinct_interleavings": len(ilv),
        "distinct_abstract_states": len(states),
        "faults": faults_cfg,
        "ops": opc,
        "probes": probes,
        "probes_at_zero": zero,
        "known_findings_hit": known_hits,
        "runs_cut_short_by_known_finding": sum(known_hits.values()),
        "components": spec.components,
        "other_counters": {k: v for k, v in stats.items() if not k.startswith(("probe/", "fault/", "op/"))},
    }
    if spec.extra_coverage:
        cov.update(spec.extra_coverage(stats, results))
    ev = {
        "property_id": spec.pid,
        "tier": tier,
        "seed": seed,
        "level": spec.level,
        "coverage": cov,
        "assumptions": spec.assumptions,
        "wall_s": round(wall, 2),
        "violations": n_viol,
    }
    os.makedirs(os.path.join(env.OUT_ROOT, "evidence"), exist_ok=True)
    with open(os.path.join(env.OUT_ROOT, "evidence", f"{spec.pid}.json"), "w") as f:
        json.dump(ev, f, indent=1, default=str)
    print(
        f"{spec.pid} tier={tier} seed={seed} runs={n_done}/{n_runs} steps={cov['steps']} "
        f"nontrivial={len(traces_nt)} violations={n_viol} known={sum(known_hits.values())} wall={wall:.1f}s"
        + (f" zero-probes={zero}" if zero else ""),
        flush=True,
    )
    return env.EXIT_VIOLATION if n_viol else env.EXIT_OK


def run_replay(spec: CheckSpec, path: str) -> int:
    with open(path) as f:
        doc = json.load(f)
    if doc.get("kind") == "run-sequence":
        vs = []
        for r in doc["runs"]:
            vs = spec.run_one(doc["seed"], r).get("violations", [])
    else:
        vs = spec.replay_fn(doc)
    want = doc.get("expected", {}).get("oracle")
    hit = [v for v in vs if v["oracle"] == want] if want else vs
    if hit:
        v = hit[0]
        print(f"VIOLATION property={spec.pid} replay={path}")
        print(f"  oracle={v['oracle']} step={v['step']}: {v['msg'][:400]}")
        return env.EXIT_VIOLATION
    print(f"replay {path}: expected oracle {want} did not fire (fired: {[v['oracle'] for v in vs]})")
    return env.EXIT_OK
