"""Fault catalogue: invalid calls constructed from the current state.

`bad_calls(snap, ctx)` enumerates every catalogue entry constructible in the
observed state (deterministically, no randomness); the fault actor samples from
it, the C09 enumeration issues all of them.
"""
from __future__ import annotations

import math
import random
from typing import Any

import numpy as np

from . import gen as G
from .observe import Snap

INF = float("inf")


def _const_pulse(d, amp=1.0, det=0.0, phase=0.0):
    return {
        "amp": {"w": "const", "d": d, "v": amp},
        "det": {"w": "const", "d": d, "v": det},
        "phase": phase,
    }


def _valid_d(ch) -> int:
    d = max(ch.min_duration, 16)
    if d % ch.clock_period:
        d += ch.clock_period - d % ch.clock_period
    if ch.max_duration is not None:
        d = min(d, ch.max_duration)
    return d


def _valid_amp(ch) -> float:
    amax = ch.max_amp if ch.max_amp is not None else 10.0
    return max(0.5 * amax, min(amax, ch.min_avg_amp * 1.2))


def bad_calls(snap: Snap, ctx) -> list[tuple[str, dict]]:
    out: list[tuple[str, dict]] = []
    dev = ctx.sut.device
    qids = ctx.qids
    names = list(snap.channels)
    max_seq = dev.max_sequence_duration
    for n in names:
        cs = snap.channels[n]
        ch = cs.obj
        d = _valid_d(ch)
        a = _valid_amp(ch)
        if cs.is_dmm:
            out.append(("dmm/add-pulse", {"op": "add", "ch": n, "pulse": _const_pulse(d, 0.0, -1.0)}))
            out.append(("dmm/positive-det", {"op": "add_dmm_detuning", "ch": n, "wf": {"w": "const", "d": d, "v": 2e-6}}))
            wmax, wsum = G.weights_of(cs)
            if ch.bottom_detuning is not None and wmax > 0:
                out.append(("dmm/below-bottom", {"op": "add_dmm_detuning", "ch": n, "wf": {"w": "const", "d": d, "v": ch.bottom_detuning / wmax - 1e-4}}))
            if ch.total_bottom_detuning is not None and wsum > 0:
                out.append(("dmm/below-total", {"op": "add_dmm_detuning", "ch": n, "wf": {"w": "const", "d": d, "v": ch.total_bottom_detuning / wsum - 1e-4}}))
            out.append(("dmm/bad-protocol", {"op": "add_dmm_detuning", "ch": n, "wf": {"w": "const", "d": d, "v": -0.5}, "protocol": "asap"}))
            out.append(("dmm/target", {"op": "target", "qubits": qids[0], "ch": n}))
            if ch.min_duration > 1:
                out.append(("dmm/dur-below-min", {"op": "add_dmm_detuning", "ch": n, "wf": {"w": "const", "d": ch.min_duration - 1, "v": -0.5}}))
                out.append(("dmm/delay-below-min", {"op": "delay", "d": ch.min_duration - 1, "ch": n, "at_rest": True}))
            continue
        has_target = bool(cs.slots)
        # ------------------------------------------------ duration
        if ch.min_duration > 1:
            bd = ch.min_duration - 1
            out.append(("dur/delay-below-min", {"op": "delay", "d": bd, "ch": n}))
            out.append(("dur/delay-below-min-at-rest", {"op": "delay", "d": bd, "ch": n, "at_rest": True}))
            if cs.in_eom:
                out.append(("dur/eom-pulse-below-min", {"op": "add_eom_pulse", "ch": n, "d": bd, "phase": 0.0}))
            else:
                out.append(("dur/pulse-below-min", {"op": "add", "ch": n, "pulse": _const_pulse(bd, a)}))
        out.append(("dur/delay-negative", {"op": "delay", "d": -4, "ch": n, "at_rest": True}))
        out.append(("dur/delay-noncastable", {"op": "delay", "d": "abc", "ch": n, "at_rest": True}))
        if ch.max_duration is not None and ch.max_duration < 10000:
            bd = ch.max_duration + ch.clock_period
            out.append(("dur/delay-above-max", {"op": "delay", "d": bd, "ch": n}))
            out.append(("dur/delay-above-max-at-rest", {"op": "delay", "d": bd, "ch": n, "at_rest": True}))
            if not cs.in_eom:
                out.append(("dur/pulse-above-max", {"op": "add", "ch": n, "pulse": _const_pulse(bd, a)}))
        # ------------------------------------------------ sequence duration
        if max_seq is not None:
            room = max_seq - cs.end
            big = room + ch.clock_period * 2
            if big % ch.clock_period:
                big += ch.clock_period - big % ch.clock_period
            big = max(big, d)
            if ch.max_duration is None or big <= ch.max_duration:
                out.append(("seqdur/delay-over", {"op": "delay", "d": big, "ch": n}))
                out.append(("seqdur/delay-over-at-rest", {"op": "delay", "d": big, "ch": n, "at_rest": True}))
                if cs.in_eom:
                    out.append(("seqdur/eom-pulse-over", {"op": "add_eom_pulse", "ch": n, "d": big, "phase": 0.0}))
                elif has_target:
                    out.append(("seqdur/pulse-over", {"op": "add", "ch": n, "pulse": _const_pulse(big, a)}))
                    out.append(("seqdur/pulse-over-wait-all", {"op": "add", "ch": n, "pulse": _const_pulse(big, a, phase=2.5), "protocol": "wait-for-all"}))
        # ------------------------------------------------ amplitude / detuning
        if not cs.in_eom and has_target:
            if ch.max_amp is not None:
                out.append(("amp/above-max", {"op": "add", "ch": n, "pulse": _const_pulse(d, float(np.nextafter(ch.max_amp, INF)))}))
                out.append(("amp/above-max-ramp", {"op": "add", "ch": n, "pulse": {"amp": {"w": "ramp", "d": d, "a": 0.0, "b": ch.max_amp * 1.01}, "det": {"w": "const", "d": d, "v": 0.0}, "phase": 0.0}}))
            out.append(("amp/negative", {"op": "add", "ch": n, "pulse": _const_pulse(d, -0.1)}))
            out.append(("amp/nan", {"op": "add", "ch": n, "pulse": _const_pulse(d, float("nan"))}))
            out.append(("amp/inf", {"op": "add", "ch": n, "pulse": _const_pulse(d, INF)}))
            out.append(("det/nan", {"op": "add", "ch": n, "pulse": _const_pulse(d, a, float("nan"))}))
            if ch.max_abs_detuning is not None:
                out.append(("det/beyond", {"op": "add", "ch": n, "pulse": _const_pulse(d, a, ch.max_abs_detuning + 6e-7)}))
                out.append(("det/beyond-neg", {"op": "add", "ch": n, "pulse": _const_pulse(d, a, -(ch.max_abs_detuning + 6e-7))}))
            if ch.min_avg_amp > 0:
                out.append(("amp/below-min-avg", {"op": "add", "ch": n, "pulse": _const_pulse(d, ch.min_avg_amp * 0.5)}))
            out.append(("proto/invalid", {"op": "add", "ch": n, "pulse": _const_pulse(d, a), "protocol": "asap"}))
            out.append(("mode/eom-pulse-outside", {"op": "add_eom_pulse", "ch": n, "d": d, "phase": 0.0}))
            out.append(("mode/disable-outside", {"op": "disable_eom_mode", "ch": n}))
            out.append(("mode/modify-outside", {"op": "modify_eom_setpoint", "ch": n, "amp_on": a, "det_on": 0.0}))
            out.append(("dmm/add-detuning-on-channel", {"op": "add_dmm_detuning", "ch": n, "wf": {"w": "const", "d": d, "v": -1.0}}))
            if ch.clock_period > 1:
                cd = d + 1
                if ch.max_duration is None or cd <= ch.max_duration:
                    out.append(("dur/custom-needs-rounding", {"op": "add", "ch": n, "pulse": {"amp": {"w": "custom", "samples": [a] * cd}, "det": {"w": "const", "d": cd, "v": 0.0}, "phase": 0.0}}))
            if not ch.supports_eom():
                out.append(("mode/enable-no-eom", {"op": "enable_eom_mode", "ch": n, "amp_on": a, "det_on": 0.0}))
            else:
                if ch.max_amp is not None:
                    out.append(("eom/amp-above-max", {"op": "enable_eom_mode", "ch": n, "amp_on": ch.max_amp * 1.01, "det_on": 0.0}))
                if ch.max_abs_detuning is not None:
                    out.append(("eom/det-beyond", {"op": "enable_eom_mode", "ch": n, "amp_on": a, "det_on": ch.max_abs_detuning * 1.01}))
                if max_seq is not None and cs.end > 0:
                    pass
        if not has_target and not cs.in_eom:
            out.append(("target/pulse-without-target", {"op": "add", "ch": n, "pulse": _const_pulse(d, a)}))
            out.append(("target/delay-without-target", {"op": "delay", "d": d, "ch": n}))
        if cs.in_eom:
            out.append(("mode/add-in-eom", {"op": "add", "ch": n, "pulse": _const_pulse(d, a)}))
            out.append(("mode/enable-twice", {"op": "enable_eom_mode", "ch": n, "amp_on": a, "det_on": 0.0}))
            out.append(("mode/target-in-eom", {"op": "target", "qubits": qids[0], "ch": n}))
            out.append(("proto/invalid-eom", {"op": "add_eom_pulse", "ch": n, "d": d, "phase": 0.0, "protocol": "asap"}))
            out.append(("phase/eom-nonnumeric", {"op": "add_eom_pulse", "ch": n, "d": d, "phase": "abc"}))
            if ch.max_amp is not None:
                out.append(("eom/modify-amp-above-max", {"op": "modify_eom_setpoint", "ch": n, "amp_on": ch.max_amp * 1.01, "det_on": 0.0}))
        # ------------------------------------------------ targets
        if ch.addressing == "Local" and not cs.in_eom:
            out.append(("target/unknown-qubit", {"op": "target", "qubits": "nope", "ch": n}))
            out.append(("target/empty", {"op": "target", "qubits": [], "ch": n}))
            out.append(("target/index-out-of-range", {"op": "target_index", "qubits": len(qids) + 3, "ch": n}))
            if ch.max_targets is not None and len(qids) > ch.max_targets:
                out.append(("target/too-many", {"op": "target", "qubits": qids[: ch.max_targets + 1], "ch": n}))
            basis = ch.basis
            if basis in snap.phase and len(qids) >= 2 and (ch.max_targets is None or ch.max_targets >= 2):
                refs = {q: snap.phase_ref(basis, q) for q in qids}
                diff = [q for q in qids if refs[q] != refs[qids[0]]]
                if diff:
                    out.append(("target/mixed-phase-refs", {"op": "target", "qubits": [qids[0], diff[0]], "ch": n}))
        elif ch.addressing == "Global":
            out.append(("target/on-global", {"op": "target", "qubits": qids[0], "ch": n}))
    # ---------------------------------------------------- sequence level
    out.append(("chan/unknown-name-add", {"op": "add", "ch": "ghost", "pulse": _const_pulse(16, 1.0)}))
    out.append(("chan/unknown-name-delay", {"op": "delay", "d": 16, "ch": "ghost"}))
    out.append(("chan/unknown-id", {"op": "declare_channel", "name": "zz_new", "channel_id": "no_such_channel"}))
    out.append(("chan/dmm-prefix-name", {"op": "declare_channel", "name": "dmm_x", "channel_id": next(iter(dev.channels))}))
    # a Local channel whose initial target is refused, once per basis (the first
    # channel of a basis creates its phase references before the target is set)
    seen_basis = set()
    used_ids = {cs.channel_id for cs in snap.channels.values()}
    for cid, ch in dev.channels.items():
        if ch.addressing != "Local" or ch.basis in seen_basis:
            continue
        if cid in used_ids and not getattr(dev, "reusable_channels", False):
            continue
        if (ch.basis == "XY") != bool(snap.flags["in_xy"]) and (snap.flags["in_xy"] or snap.flags["in_ising"]):
            continue
        seen_basis.add(ch.basis)
        out.append(("chan/local-unknown-initial-target", {"op": "declare_channel", "name": "zz_loc_" + ch.basis, "channel_id": cid, "initial_target": "nope"}))
        if ch.max_targets is not None and len(qids) > ch.max_targets:
            out.append(("chan/local-too-many-initial-targets", {"op": "declare_channel", "name": "zz_many_" + ch.basis, "channel_id": cid, "initial_target": qids[: ch.max_targets + 1]}))
    # the first pulse after a pending SLM mask drives an automatic DMM pulse of
    # the same length, which the DMM refuses when it is shorter than its minimum
    for n, cs in snap.channels.items():
        if cs.is_dmm and cs.waiting_first_pulse and cs.obj.min_duration > 1:
            for g, gs in snap.channels.items():
                gch = gs.obj
                if gs.is_dmm or gch.addressing != "Global" or gs.in_eom or not gs.slots:
                    continue
                d_short = gch.min_duration
                if d_short % gch.clock_period:
                    d_short += gch.clock_period - d_short % gch.clock_period
                if d_short < cs.obj.min_duration and (gch.max_duration is None or d_short <= gch.max_duration):
                    out.append(("slm/first-pulse-shorter-than-dmm-min", {"op": "add", "ch": g, "pulse": dict(_const_pulse(d_short, _valid_amp(gch)), pps=0.7)}))
                    break
            break
    if names:
        first = names[0]
        any_id = next(iter(dev.channels))
        out.append(("chan/duplicate-name", {"op": "declare_channel", "name": first, "channel_id": any_id}))
        if len(names) >= 1:
            out.append(("align/single", {"op": "align", "chs": [first]}))
            out.append(("align/duplicate", {"op": "align", "chs": [first, first]}))
            out.append(("align/unknown", {"op": "align", "chs": [first, "ghost"]}))
    if not getattr(dev, "reusable_channels", False):
        used = {cs.channel_id for cs in snap.channels.values()}
        for cid in dev.channels:
            if cid in used:
                out.append(("chan/id-already-used", {"op": "declare_channel", "name": "zz_again", "channel_id": cid}))
                break
    if snap.flags["in_xy"]:
        for cid, ch in dev.channels.items():
            if ch.basis != "XY":
                out.append(("mode/ising-in-xy", {"op": "declare_channel", "name": "zz_ising", "channel_id": cid}))
                break
        if dev.dmm_channels:
            w = {q: (1.0 if i == 0 else 0.0) for i, q in enumerate(qids)}
            out.append(("mode/dmm-in-xy", {"op": "config_detuning_map", "weights": w, "dmm_id": next(iter(dev.dmm_channels))}))
        if not snap.flags["empty"]:
            out.append(("mode/magfield-nonempty", {"op": "set_magnetic_field", "b": [1.0, 0.0, 0.0]}))
        out.append(("mode/magfield-zero", {"op": "set_magnetic_field", "b": [0.0, 0.0, 0.0]}))
    elif not snap.flags["in_ising"] and not snap.channels:
        # no mode yet: a refused magnetic field must not switch the sequence to XY
        out.append(("mode/magfield-zero-on-fresh-sequence", {"op": "set_magnetic_field", "b": [0.0, 0.0, 0.0]}))
    elif snap.flags["in_ising"]:
        for cid, ch in dev.channels.items():
            if ch.basis == "XY":
                out.append(("mode/xy-in-ising", {"op": "declare_channel", "name": "zz_xy", "channel_id": cid}))
                break
        out.append(("mode/magfield-in-ising", {"op": "set_magnetic_field", "b": [1.0, 0.0, 0.0]}))
    if snap.flags["slm_dmm"] and not snap.flags["in_ising"] and not snap.flags["in_xy"] and not getattr(dev, "reusable_channels", False) and str(snap.flags["slm_dmm"]) in dev.dmm_channels:
        # the DMM is reserved by a pending SLM mask: the refusal must not start Ising mode
        out.append(("dmm/reserved-by-pending-slm", {"op": "config_detuning_map", "weights": {q: (1.0 if i == 0 else 0.0) for i, q in enumerate(qids)}, "dmm_id": str(snap.flags["slm_dmm"])}))
    out.append(("dmm/unknown-id", {"op": "config_detuning_map", "weights": {q: (1.0 if i == 0 else 0.0) for i, q in enumerate(qids)}, "dmm_id": "dmm_77"}))
    if snap.flags["slm_targets"]:
        out.append(("slm/twice", {"op": "config_slm_mask", "qubits": [qids[0]]}))
    out.append(("slm/unknown-qubit", {"op": "config_slm_mask", "qubits": ["nope"]}))
    bases = sorted(snap.phase)
    out.append(("phase/unknown-basis", {"op": "phase_shift", "phi": 1.0, "targets": [qids[0]], "basis": "no-basis"}))
    if bases:
        out.append(("phase/unknown-qubit", {"op": "phase_shift", "phi": 1.0, "targets": ["nope"], "basis": bases[0]}))
        out.append(("phase/index-out-of-range", {"op": "phase_shift_index", "phi": 1.0, "targets": [len(qids) + 2], "basis": bases[0]}))
    out.append(("measure/bad-basis", {"op": "measure", "basis": "no-basis"}))
    # ---------------------------------------------------- variables
    own = sorted(getattr(ctx.sut, "vars", {}))
    if own and not snap.parametrized:
        # the FIRST use of an own variable is refused for a reason unrelated to
        # it (mode errors are RuntimeErrors, unknown names ValueErrors): the
        # sequence must stay a regular, non-parametrized one
        vname = own[0]
        out.append(("var/own-unknown-channel", {"op": "delay_var", "ch": "ghost", "var": vname}))
        for n in names:
            cs = snap.channels[n]
            if cs.is_dmm or not cs.slots:
                continue
            if cs.in_eom:
                out.append(("var/own-add-in-eom", {"op": "add_var", "ch": n, "var": vname, "d": _valid_d(cs.obj)}))
                out.append(("var/own-enable-twice", {"op": "enable_eom_var", "ch": n, "var": vname, "amp_on": _valid_amp(cs.obj)}))
            else:
                out.append(("var/own-eom-pulse-outside", {"op": "add_eom_pulse_var", "ch": n, "var": vname}))
            break
    cands = [n for n in names if not snap.channels[n].is_dmm and snap.channels[n].slots and not snap.channels[n].in_eom]
    if cands:
        n = cands[0]
        out.append(("var/foreign-variable", {"op": "add_var", "ch": n, "var": "alien", "foreign": True, "d": _valid_d(snap.channels[n].obj)}))
        out.append(("var/foreign-variable-delay", {"op": "delay_var", "ch": n, "var": "alien", "foreign": True}))
    return out


def fork_calls(snap: Snap, ctx) -> list[tuple[str, dict]]:
    """Two-step faults, run on a copy rebuilt from the call log: a valid delay
    first brings a channel to within one clock period of the device's maximum
    sequence duration, then a call whose AUTOMATIC delay (EOM buffer, phase-jump
    buffer, retarget time, fall time) no longer fits is issued; it must be
    refused and leave the copy as it was after the delay."""
    out: list[tuple[str, dict]] = []
    dev = ctx.sut.device
    max_seq = dev.max_sequence_duration
    if snap.parametrized or snap.flags["measured"]:
        return out
    # align() pads its channels one after the other: with [Y, Z, L], L made long
    # enough that Z's padding exceeds Z's max_duration, Y is padded before Z refuses
    live = [(n, cs) for n, cs in snap.channels.items() if cs.slots]
    if len(live) >= 3:
        for zn, zs in live:
            zmax = zs.obj.max_duration
            if zmax is None or zmax > 5000:
                continue
            others = [(n, cs) for n, cs in live if n != zn]
            ln, ls = max(others, key=lambda t: t[1].end)
            lch = ls.obj
            need = zs.end + zmax + 2 * lch.clock_period - ls.end
            need = max(need, lch.min_duration, 1)
            if need % lch.clock_period:
                need += lch.clock_period - need % lch.clock_period
            if lch.max_duration is not None and need > lch.max_duration:
                continue
            if max_seq is not None and ls.end + need > max_seq:
                continue
            ys = [n for n, cs in others if n != ln]
            if not ys:
                continue
            out.append(("fork/align-pad-above-max", {"op": "fork", "prelude": [{"op": "delay", "d": need, "ch": ln}], "bad": {"op": "align", "chs": [ys[0], zn, ln]}}))
            break
    if max_seq is None:
        return out
    qids = ctx.qids
    for n, cs in snap.channels.items():
        ch = cs.obj
        if cs.is_dmm or not cs.slots:
            continue
        fill = max_seq - cs.end - ch.clock_period
        fill -= fill % ch.clock_period
        if fill < max(ch.min_duration, 1) or (ch.max_duration is not None and fill > ch.max_duration):
            continue
        prelude = [{"op": "delay", "d": fill, "ch": n}]
        a = _valid_amp(ch)
        d = _valid_d(ch)
        if cs.in_eom:
            out.append(("fork/eom-disable-no-room", {"op": "fork", "prelude": prelude, "bad": {"op": "disable_eom_mode", "ch": n}}))
            out.append(("fork/eom-modify-no-room", {"op": "fork", "prelude": prelude, "bad": {"op": "modify_eom_setpoint", "ch": n, "amp_on": a, "det_on": 0.0}}))
            out.append(("fork/eom-pulse-no-room", {"op": "fork", "prelude": prelude, "bad": {"op": "add_eom_pulse", "ch": n, "d": d, "phase": 2.5}}))
        else:
            out.append(("fork/pulse-phase-jump-no-room", {"op": "fork", "prelude": prelude, "bad": {"op": "add", "ch": n, "pulse": _const_pulse(d, a, phase=2.5)}}))
            if ch.supports_eom():
                out.append(("fork/eom-enable-no-room", {"op": "fork", "prelude": prelude, "bad": {"op": "enable_eom_mode", "ch": n, "amp_on": a, "det_on": 0.0}}))
            if ch.addressing == "Local" and len(qids) >= 2:
                cur = set(cs.slots[-1].targets)
                other = [q for q in qids if q not in cur]
                if other:
                    out.append(("fork/retarget-no-room", {"op": "fork", "prelude": prelude, "bad": {"op": "target", "qubits": other[0], "ch": n}}))
    return out


def after_measure_calls(snap: Snap, ctx) -> list[tuple[str, dict]]:
    """Timeline-changing calls, all of which must be refused after measure."""
    out = []
    qids = ctx.qids
    dev = ctx.sut.device
    for n, cs in snap.channels.items():
        ch = cs.obj
        d = _valid_d(ch)
        if cs.is_dmm:
            out.append(("measured/add-dmm", {"op": "add_dmm_detuning", "ch": n, "wf": {"w": "const", "d": d, "v": -0.5}}))
        elif cs.in_eom:
            out.append(("measured/add-eom", {"op": "add_eom_pulse", "ch": n, "d": d, "phase": 0.0}))
            out.append(("measured/disable-eom", {"op": "disable_eom_mode", "ch": n}))
        else:
            out.append(("measured/add", {"op": "add", "ch": n, "pulse": _const_pulse(d, _valid_amp(ch))}))
            if ch.addressing == "Local":
                out.append(("measured/target", {"op": "target", "qubits": qids[-1], "ch": n}))
        out.append(("measured/delay", {"op": "delay", "d": d, "ch": n}))
    if len(snap.channels) >= 2:
        out.append(("measured/align", {"op": "align", "chs": list(snap.channels)[:2]}))
    out.append(("measured/measure", {"op": "measure", "basis": "ground-rydberg"}))
    for cid in dev.channels:
        out.append(("measured/declare", {"op": "declare_channel", "name": "zz_late", "channel_id": cid}))
        break
    if getattr(dev, "supports_slm_mask", False) and not snap.flags["slm_targets"]:
        out.append(("measured/slm", {"op": "config_slm_mask", "qubits": [qids[0]]}))
    return out
