"""World specs (JSON) <-> live Pulser objects, and the seeded world generator.

A world spec is plain JSON so that a replay file is self-contained:
{"device": {...}, "register": {...}}
"""
from __future__ import annotations

import math
import random
from typing import Any

import numpy as np

TWO_PI = 2 * math.pi


# --------------------------------------------------------------------------
# spec -> objects
# --------------------------------------------------------------------------
def build_eom(spec: dict | None):
    if spec is None:
        return None
    from pulser.channels.eom import RydbergBeam, RydbergEOM

    return RydbergEOM(
        mod_bandwidth=spec["mod_bandwidth"],
        custom_buffer_time=spec.get("custom_buffer_time"),
        limiting_beam=RydbergBeam[spec["limiting_beam"]],
        max_limiting_amp=spec["max_limiting_amp"],
        intermediate_detuning=spec["intermediate_detuning"],
        controlled_beams=tuple(
            RydbergBeam[b] for b in spec["controlled_beams"]
        ),
        multiple_beam_control=spec.get("multiple_beam_control", True),
        blue_shift_coeff=spec.get("blue_shift_coeff", 1.0),
        red_shift_coeff=spec.get("red_shift_coeff", 1.0),
    )


_CH_KEYS = (
    "clock_period",
    "min_duration",
    "max_duration",
    "min_avg_amp",
    "mod_bandwidth",
    "custom_phase_jump_time",
)


def build_channel(spec: dict):
    import pulser.channels as pc

    cls = getattr(pc, spec["cls"])
    kw: dict[str, Any] = {k: spec[k] for k in _CH_KEYS if k in spec}
    if spec["cls"] == "Rydberg" and spec.get("eom") is not None:
        kw["eom_config"] = build_eom(spec["eom"])
    if spec["addr"] == "Global":
        return cls.Global(spec["max_abs_detuning"], spec["max_amp"], **kw)
    return cls.Local(
        spec["max_abs_detuning"],
        spec["max_amp"],
        min_retarget_interval=spec.get("min_retarget_interval", 0),
        fixed_retarget_t=spec.get("fixed_retarget_t", 0),
        max_targets=spec.get("max_targets"),
        **kw,
    )


def build_dmm(spec: dict):
    from pulser.channels.dmm import DMM

    kw = {k: spec[k] for k in _CH_KEYS if k in spec and k != "custom_phase_jump_time"}
    return DMM(
        bottom_detuning=spec.get("bottom_detuning"),
        total_bottom_detuning=spec.get("total_bottom_detuning"),
        **kw,
    )


def build_device(spec: dict):
    import pulser.devices as pd
    from pulser.devices import Device, VirtualDevice

    if spec["kind"] == "builtin":
        return getattr(pd, spec["name"])
    chans = tuple(build_channel(c) for c in spec["channels"])
    ids = tuple(c["id"] for c in spec["channels"])
    dmms = tuple(build_dmm(d) for d in spec.get("dmm", []))
    common = dict(
        name=spec.get("name", "GenDevice"),
        dimensions=spec.get("dimensions", 3),
        rydberg_level=spec.get("rydberg_level", 70),
        min_atom_distance=spec.get("min_atom_distance", 1.0),
        max_atom_num=spec.get("max_atom_num"),
        max_radial_distance=spec.get("max_radial_distance"),
        interaction_coeff_xy=spec.get("interaction_coeff_xy", 3700.0),
        supports_slm_mask=spec.get("supports_slm_mask", False),
        max_sequence_duration=spec.get("max_sequence_duration"),
        channel_objects=chans,
        channel_ids=ids,
        dmm_objects=dmms,
    )
    if spec["kind"] == "virtual":
        return VirtualDevice(
            reusable_channels=spec.get("reusable_channels", False), **common
        )
    assert spec["kind"] == "physical"
    return Device(**common)


def build_register(spec: dict):
    from pulser import Register, Register3D

    coords = {q: tuple(c) for q, c in zip(spec["ids"], spec["coords"])}
    if spec.get("dim", 2) == 3:
        return Register3D(coords)
    return Register(coords)


# --------------------------------------------------------------------------
# seeded generation
# --------------------------------------------------------------------------
def _pick(rng: random.Random, xs):
    return xs[rng.randrange(len(xs))]


def gen_eom(rng: random.Random, ch_bw: float) -> dict:
    both = rng.random() < 0.6
    lim = _pick(rng, ["RED", "BLUE"])
    if both:
        ctrl = ["BLUE", "RED"] if rng.random() < 0.5 else ["RED", "BLUE"]
    else:
        ctrl = [_pick(rng, ["RED", "BLUE"])]
    return {
        # usually faster than the channel itself; sometimes (legal but exotic)
        # slower, which is where mode-dependent fall times matter most
        "mod_bandwidth": (
            _pick(rng, [ch_bw * 2.5, ch_bw * 5.0, max(40.0, ch_bw), max(60.0, ch_bw)])
            if rng.random() < 0.9
            else ch_bw / 2.0
        ),
        "custom_buffer_time": _pick(rng, [None, None, 12, 40, 150, 300]),
        "limiting_beam": lim,
        "max_limiting_amp": _pick(rng, [15.0, 30.0, 40.0]) * TWO_PI,
        "intermediate_detuning": _pick(rng, [500.0, 700.0, 900.0]) * TWO_PI,
        "controlled_beams": ctrl,
        "multiple_beam_control": rng.random() < 0.7,
        "blue_shift_coeff": _pick(rng, [1.0, 1.0, 0.8, 1.3]),
        "red_shift_coeff": _pick(rng, [1.0, 1.0, 0.9, 1.2]),
    }


def gen_channel(
    rng: random.Random,
    cid: str,
    cls: str,
    addr: str,
    *,
    physical: bool = False,
    allow_eom: bool = True,
    bw_bias: float = 0.6,
) -> dict:
    clock = _pick(rng, [1, 1, 2, 4, 4, 8])
    min_d = _pick(rng, [1, 4, 16, 16, 20, 52])
    if rng.random() < 0.25:
        max_d = _pick(rng, [400, 1000, 1002, 998, 2**12 + 1])
    elif physical or rng.random() < 0.6:
        max_d = 2**26
    else:
        max_d = None
    bw = _pick(rng, [2.0, 4.0, 8.0, 8.0, 20.0, 40.0]) if rng.random() < bw_bias else None
    spec: dict[str, Any] = {
        "id": cid,
        "cls": cls,
        "addr": addr,
        # 0.0 is a legal limit (a resonant-only channel), distinct from "no limit"
        "max_abs_detuning": (
            _pick(rng, [20.0, 40.0, 20.0, 40.0, 20.0, 40.0, 20.0, 40.0, 0.0, 0.16]) * TWO_PI
            if physical or rng.random() < 0.7
            else None
        ),
        "max_amp": (
            _pick(rng, [2.0, 2.5, 10.0]) * TWO_PI
            if physical or rng.random() < 0.7
            else None
        ),
        "clock_period": clock,
        "min_duration": min_d,
        "max_duration": max(max_d, min_d) if max_d is not None else None,
        "min_avg_amp": _pick(rng, [0, 0, 0, 0.4, 1.0]),
        "mod_bandwidth": bw,
        "custom_phase_jump_time": (
            _pick(rng, [None, None, 0, 30, 200]) if True else None
        ),
    }
    if addr == "Local":
        spec["min_retarget_interval"] = _pick(rng, [0, 0, 100, 220, 250])
        spec["fixed_retarget_t"] = _pick(rng, [0, 0, 0, 10, 60, 300])
        spec["max_targets"] = (
            _pick(rng, [1, 2, 3]) if physical or rng.random() < 0.6 else None
        )
    if cls == "Rydberg" and bw is not None and allow_eom and rng.random() < 0.7:
        spec["eom"] = gen_eom(rng, bw)
    else:
        spec["eom"] = None
    return spec


def gen_dmm(rng: random.Random, physical: bool = False) -> dict:
    clock = _pick(rng, [1, 4, 4])
    min_d = _pick(rng, [1, 16, 16])
    bottom = _pick(rng, [None, -20.0 * TWO_PI, -5.0 * TWO_PI])
    total = _pick(rng, [None, -2000.0 * TWO_PI, -12.0 * TWO_PI])
    if physical:
        bottom = bottom if bottom is not None else -20.0 * TWO_PI
        total = total if total is not None else -2000.0 * TWO_PI
    if bottom is not None and total is not None and bottom < total:
        total = bottom * 1.5
    return {
        "clock_period": clock,
        "min_duration": min_d,
        "max_duration": 2**26,
        "mod_bandwidth": _pick(rng, [None, None, 8.0, 20.0]),
        "bottom_detuning": bottom,
        "total_bottom_detuning": total,
    }


def gen_register(rng: random.Random, n_min=1, n_max=5, dim3_p=0.2, int_ids_p=0.0, ring_p=0.0) -> dict:
    n = rng.randint(n_min, n_max)
    dim = 3 if rng.random() < dim3_p else 2
    if ring_p and rng.random() < ring_p and n >= 3:
        # atoms on a circle, coordinates straight from cos/sin: pairs of traps whose
        # x (or y) agree to 1e-6 but not bit for bit, which is where any ordering
        # of traps by rounded coordinates meets floating-point noise
        import math

        n = max(n, 4)
        pool = ["q0", "q1", "q2", "q3", "q4", "a", "b", "zz", "k9"]
        ids = rng.sample(pool, n)
        rad = 1.15 * 5.0 / (2 * math.sin(math.pi / n))
        th0 = _pick(rng, [0.0, math.pi / n, 0.3])
        sgn = _pick(rng, [1, -1])
        coords = [[rad * math.cos(th0 + sgn * 2 * math.pi * k / n), rad * math.sin(th0 + sgn * 2 * math.pi * k / n)] for k in range(n)]
        return {"ids": ids, "coords": coords, "dim": 2}
    pool = ["q0", "q1", "q2", "q3", "q4", "a", "b", "zz", "k9"]
    ids = rng.sample(pool, n)
    if int_ids_p and rng.random() < int_ids_p:
        # integer qubit ids 0..n-1, what Register.square(n) etc. produce by default
        ids = list(range(n))
        if rng.random() < 0.5:
            rng.shuffle(ids)  # an id is not the atom's position in the register
    coords = []
    # atoms on a jittered grid, spacing >= 5um so every device accepts them
    cells = rng.sample(range(16), n)
    for c in cells:
        x = (c % 4) * 6.0 - 9.0 + round(rng.uniform(-0.4, 0.4), 3)
        y = (c // 4) * 6.0 - 9.0 + round(rng.uniform(-0.4, 0.4), 3)
        if dim == 3:
            coords.append([x, y, round(rng.uniform(-3, 3), 3)])
        else:
            coords.append([x, y])
    return {"ids": ids, "coords": coords, "dim": dim}


def gen_device(
    rng: random.Random,
    *,
    mode: str | None = None,
    xy_p: float = 0.1,
    bw_bias: float = 0.6,
) -> dict:
    """A generated device. mode in {None, 'virtual', 'physical', 'builtin'}."""
    r = rng.random()
    if mode is None:
        mode = "builtin" if r < 0.15 else ("physical" if r < 0.3 else "virtual")
    if mode == "builtin":
        return {
            "kind": "builtin",
            "name": _pick(
                rng, ["AnalogDevice", "DigitalAnalogDevice", "MockDevice"]
            ),
        }
    physical = mode == "physical"
    chans: list[dict] = []
    xy_dev = not physical and rng.random() < xy_p
    if xy_dev:
        chans.append(
            gen_channel(rng, "mw_a", "Microwave", "Global", allow_eom=False, bw_bias=bw_bias)
        )
        if rng.random() < 0.7:
            chans.append(
                gen_channel(rng, "mw_b", "Microwave", "Global", allow_eom=False, bw_bias=bw_bias)
            )
        # a non-XY channel too, so mode conflicts are reachable
        chans.append(gen_channel(rng, "ryd_g", "Rydberg", "Global", bw_bias=bw_bias))
    else:
        n = rng.randint(2, 4)
        menu = [
            ("ryd_g", "Rydberg", "Global"),
            ("ryd_l", "Rydberg", "Local"),
            ("ram_l", "Raman", "Local"),
            ("ram_g", "Raman", "Global"),
            ("ryd_g2", "Rydberg", "Global"),
            ("ryd_l2", "Rydberg", "Local"),
        ]
        picks = rng.sample(menu, n)
        for cid, cls, addr in picks:
            chans.append(
                gen_channel(rng, cid, cls, addr, physical=physical, bw_bias=bw_bias)
            )
    n_dmm = _pick(rng, [0, 1, 1, 2]) if not xy_dev else _pick(rng, [1, 1, 2])
    dmms = [gen_dmm(rng, physical) for _ in range(n_dmm)]
    spec = {
        "kind": mode,
        "name": "GenPhys" if physical else "GenVirt",
        "dimensions": 3,
        "rydberg_level": _pick(rng, [60, 70, 80]),
        "min_atom_distance": 4.0,
        "max_atom_num": 20 if physical else None,
        "max_radial_distance": 50 if physical else None,
        "interaction_coeff_xy": 3700.0,
        "supports_slm_mask": bool(dmms) and rng.random() < (0.95 if xy_dev else 0.7),
        "max_sequence_duration": _pick(
            rng, [None, None, None, 100000, 4000, 1500]
        ),
        "channels": chans,
        "dmm": dmms,
    }
    if not physical:
        spec["reusable_channels"] = rng.random() < 0.3
    return spec


def gen_world(rng: random.Random, **kw) -> dict:
    reg_kw = {k: kw.pop(k) for k in ("n_min", "n_max", "dim3_p", "int_ids_p", "ring_p") if k in kw}
    style_p = kw.pop("call_style_p", 0.0)
    dev = gen_device(rng, **kw)
    reg = gen_register(rng, **reg_kw)
    if dev["kind"] == "builtin" and dev["name"] != "MockDevice":
        reg["dim"] = 2
        reg["coords"] = [c[:2] for c in reg["coords"]]
    world = {"device": dev, "register": reg}
    if style_p and rng.random() < style_p:
        # how the run passes arguments: all by keyword / all positional
        world["call_style"] = _pick(rng, ["kw", "pos"])
    return world


def channel_table(device) -> dict[str, Any]:
    """channel id -> channel object (incl. DMMs), as the device reports it."""
    return {**device.channels, **device.dmm_channels}
