"""Actors of SEQ-SIM: setup, per-channel, observer and fault actors.

Each actor proposes its next concrete op from the observed snapshot; the
interleaver (engine) decides who goes next.
"""
from __future__ import annotations

import math
import random
from typing import Any

from . import gen as G
from .observe import Snap, sort_ids

DEFAULT_PROFILE: dict[str, Any] = {
    "n_channels": (2, 4),
    "ops_per_channel": (3, 9),
    "w_observer": 0.6,
    "w_fault": 0.5,
    "fault_kinds": {"bad": 5, "restart": 2, "cache": 1},
    "restart_kinds": {
        "restart_abstract": 2,
        "restart_legacy": 2,
        "restart_build": 1,
        "restart_switch_register": 1,
        "restart_switch_device_same": 1,
    },
    "chan_ops": {
        "add": 10,
        "delay": 3,
        "target": 3,
        "phase_shift": 2,
        "align": 2,
        "enable_eom": 2,
    },
    "eom_ops": {
        "add_eom_pulse": 8,
        "delay": 2,
        "modify": 1.5,
        "disable": 2,
        "phase_shift": 1,
        "align": 1,
    },
    "dmm_ops": {"add_dmm": 6, "delay": 2, "align": 1},
    "protocols": {"min-delay": 6, "no-delay": 2, "wait-for-all": 2},
    "slm_p": 0.25,
    "measure_p": 0.15,
    "max_steps": 40,
    "max_restarts": 6,
    "observers": {
        "obs_str": 2,
        "obs_sample": 3,
        "obs_duration": 2,
        "obs_estimate": 3,
        "obs_phase_ref": 1,
        "obs_props": 1,
        "obs_abstract": 1,
        "obs_legacy": 1,
        "obs_draw": 0.0,
    },
}


def make_profile(**over) -> dict:
    p = {k: (dict(v) if isinstance(v, dict) else v) for k, v in DEFAULT_PROFILE.items()}
    for k, v in over.items():
        if isinstance(v, dict) and isinstance(p.get(k), dict):
            p[k].update(v)
        else:
            p[k] = v
    return p


def observe_arr(x):
    from . import observe

    return observe._arr(x)


class SetupActor:
    name = "setup"

    def __init__(self, rng: random.Random, world: dict, device, register, profile):
        self.queue: list[dict] = []
        self.chan_names: list[str] = []
        ids = list(device.channels)
        dmm_ids = list(device.dmm_channels)
        qids = list(register.qubit_ids)
        lo, hi = profile["n_channels"]
        n = rng.randint(lo, hi)
        xy_ids = [i for i in ids if device.channels[i].basis == "XY"]
        non_xy = [i for i in ids if device.channels[i].basis != "XY"]
        use_xy = bool(xy_ids) and rng.random() < profile.get("use_xy_p", 0.5)
        pool = xy_ids if use_xy else non_xy
        reusable = bool(getattr(device, "reusable_channels", False))
        chosen: list[str] = []
        for _ in range(n):
            if not pool:
                break
            cid = G.pick(rng, pool)
            if not reusable:
                pool = [p for p in pool if p != cid]
            chosen.append(cid)
        # names are NOT in alphabetical order of declaration (anything that sorts
        # channels by name must not change behaviour)
        suffixes = list(range(len(chosen)))
        if profile.get("shuffle_names", True):
            rng.shuffle(suffixes)
        k = 0
        for cid in chosen:
            ch = device.channels[cid]
            name = f"c{suffixes[k]}"
            if k == 0 and profile.get("empty_name_p") and rng.random() < profile["empty_name_p"]:
                name = ""  # a legal channel name that is falsy
            k += 1
            op = {"op": "declare_channel", "name": name, "channel_id": cid}
            if ch.addressing == "Local" and rng.random() < 0.7:
                mt = ch.max_targets or len(qids)
                nt = 1 if rng.random() < 0.7 else min(mt, len(qids), 2)
                tg = rng.sample(qids, nt)
                op["initial_target"] = tg[0] if nt == 1 and rng.random() < 0.5 else tg
            self.queue.append(op)
            self.chan_names.append(name)
        if use_xy and rng.random() < 0.4:
            self.queue.insert(
                rng.randint(0, 1),
                {"op": "set_magnetic_field", "b": [G.pick(rng, [0.0, 10.0]), G.pick(rng, [0.0, -5.0]), 30.0]},
            )
        if dmm_ids and not use_xy:
            ndm = 0
            for did in dmm_ids:
                if rng.random() < 0.6:
                    ws = {}
                    for q in qids:
                        ws[q] = 0.0
                    hot = rng.sample(qids, rng.randint(1, len(qids)))
                    raw = [rng.random() + 0.05 for _ in hot]
                    tot = sum(raw)
                    for q, r in zip(hot, raw):
                        ws[q] = round(r / tot, 6)
                    # weights must sum to 1: fix the last one
                    last = hot[-1]
                    ws[last] = round(1.0 - sum(v for q, v in ws.items() if q != last), 12)
                    if ws[last] < 0:
                        continue
                    self.queue.insert(
                        rng.randint(0, len(self.queue)),
                        # a slug is a label, not an identity: several maps may carry the same one
                        dict({"op": "config_detuning_map", "weights": ws, "dmm_id": did}, **({"slug": "dm"} if rng.random() < 0.35 else {})),
                    )
                    self.chan_names.append(did if ndm == 0 or did not in self.chan_names else did)
                    ndm += 1
                    if reusable and profile.get("dmm_twice_p") and rng.random() < profile["dmm_twice_p"]:
                        # a device with reusable channels lets the same DMM be configured
                        # again (with another map): the second channel is "<dmm_id>_1"
                        ws2 = {q: 0.0 for q in qids}
                        ws2[G.pick(rng, qids)] = 1.0
                        self.queue.insert(rng.randint(0, len(self.queue)), {"op": "config_detuning_map", "weights": ws2, "dmm_id": did})
                        self.chan_names.append(f"{did}_1")
        slm_p = profile.get("slm_p_xy", profile["slm_p"]) if use_xy else profile["slm_p"]
        if getattr(device, "supports_slm_mask", False) and dmm_ids and rng.random() < slm_p:
            tg = rng.sample(qids, rng.randint(1, max(1, len(qids) - 1)))
            op = {"op": "config_slm_mask", "qubits": tg}
            if rng.random() < 0.5:
                op["dmm_id"] = G.pick(rng, dmm_ids)
            # SLM config may land anywhere, incl. after the first pulses
            self.slm_op = op
        else:
            self.slm_op = None
        if self.slm_op is not None and profile.get("slm_first_p") and rng.random() < profile["slm_first_p"]:
            # the mask is configured before anything else (the sequence has no mode
            # yet: its DMM is reserved but not declared)
            self.queue.insert(0, self.slm_op)
            self.slm_op = None
        if profile.get("declare_var_p") and rng.random() < profile["declare_var_p"]:
            # a declared but unused variable: the sequence stays a regular one
            self.queue.insert(rng.randint(0, len(self.queue)), {"op": "declare_variable", "name": "uv"})

    def runnable(self, snap: Snap) -> bool:
        return bool(self.queue)

    def next_op(self, rng, snap: Snap, ctx) -> dict | None:
        return self.queue.pop(0) if self.queue else None


def _last_real_phase(cs) -> float | None:
    for s in reversed(cs.slots):
        if s.kind == "pulse":
            return float(s.pulse.phase)
    return None


def _programmed_phase(snap: Snap, cs, rng) -> float | None:
    """A programmed phase that reproduces the last scheduled phase."""
    lp = _last_real_phase(cs)
    if lp is None or cs.is_dmm or not cs.slots:
        return None
    basis = cs.obj.basis
    tg = cs.slots[-1].targets
    if not tg or basis not in snap.phase:
        return None
    ref = snap.phase_ref(basis, tg[0])
    return (lp - ref) % (2 * math.pi)


class ChannelActor:
    def __init__(self, name: str, budget: int):
        self.name = name
        self.budget = budget

    def runnable(self, snap: Snap) -> bool:
        return self.budget > 0 and self.name in snap.channels and not snap.parametrized

    def next_op(self, rng: random.Random, snap: Snap, ctx) -> dict | None:
        self.budget -= 1
        prof = ctx.profile
        cs = snap.channels[self.name]
        ch = cs.obj
        qids = ctx.qids
        others = [n for n in snap.channels if n != self.name]
        if cs.is_dmm:
            kind = G.wpick(rng, prof["dmm_ops"])
        elif cs.in_eom:
            kind = G.wpick(rng, prof["eom_ops"])
        else:
            table = dict(prof["chan_ops"])
            if ch.addressing != "Local":
                table["target"] = 0
            elif not cs.slots:
                table = {"target": 1}
            if not ch.supports_eom():
                table["enable_eom"] = 0
            if ch.addressing == "Local" and ch.mod_bandwidth and cs.slots and len(qids) >= 2 and table.get("target"):
                # a pending fall time shorter than one clock period: a retarget now
                # still has to wait for it
                from .oracles.c02 import expected_fall_ends

                left = max(expected_fall_ends(cs)) - cs.end
                if 0 < left < ch.clock_period:
                    table = dict(table, target=6 * sum(table.values()))
            kind = G.wpick(rng, table)
        if kind == "align" and not others:
            kind = "delay"
        proto = G.wpick(rng, prof["protocols"])
        if kind == "add":
            lastp = _programmed_phase(snap, cs, rng)
            op = {"op": "add", "ch": self.name, "pulse": G.gen_pulse(rng, ch, last_phase=lastp)}
            last = cs.slots[-1] if cs.slots else None
            if last is not None and last.kind == "pulse" and rng.random() < 0.06:
                # a detuning echo: same duration, opposite constant detuning, so that
                # the channel's detuning samples sum to exactly zero
                from pulser.waveforms import ConstantWaveform

                lp = last.pulse
                if isinstance(lp.detuning, ConstantWaveform) and isinstance(lp.amplitude, ConstantWaveform):
                    dv = float(observe_arr(lp.detuning.samples)[0])
                    av = float(observe_arr(lp.amplitude.samples)[0])
                    if dv != 0.0:
                        dd = last.tf - last.ti
                        op["pulse"] = {"amp": {"w": "const", "d": dd, "v": av}, "det": {"w": "const", "d": dd, "v": -dv}, "phase": op["pulse"]["phase"], "pps": 0.0}
            if proto != "min-delay" or rng.random() < 0.3:
                op["protocol"] = proto
            return op
        if kind == "add_dmm":
            d = G.gen_duration(rng, ch)
            wmax, wsum = G.weights_of(cs)
            op = {
                "op": "add_dmm_detuning",
                "ch": self.name,
                "wf": G.gen_det_wf(rng, d, ch, dmm=True, weights_max=wmax, weights_sum=wsum),
            }
            if rng.random() < 0.6:
                op["protocol"] = proto
            return op
        if kind == "delay":
            op = {"op": "delay", "d": G.gen_duration(rng, ch), "ch": self.name}
            if ch.mod_bandwidth and cs.slots and rng.random() < 0.12:
                # idle for exactly the whole clock periods of the pending fall time
                # (what is left is shorter than one clock period)
                from .oracles.c02 import expected_fall_ends

                rest = max(expected_fall_ends(cs)) - cs.end
                dd = rest - rest % ch.clock_period
                if dd >= max(ch.min_duration, 1) and (ch.max_duration is None or dd <= ch.max_duration):
                    op["d"] = dd
                    return op
            if ch.mod_bandwidth and cs.slots and rng.random() < 0.3:
                # idle times measured against the channel's rise time: one rise time,
                # just under two (the longest fall time), and tiny ones, so that
                # several idle slots pile up inside a pending fall time
                tr = ch.rise_time
                dd = G.pick(rng, [tr, tr, 2 * tr - ch.clock_period, ch.min_duration, tr // 2])
                dd = max(dd, ch.min_duration)
                if dd % ch.clock_period:
                    dd += ch.clock_period - dd % ch.clock_period
                if ch.max_duration is None or dd <= ch.max_duration:
                    op["d"] = dd
            r = rng.random()
            if r < 0.35:
                op["at_rest"] = True
            elif r < 0.45:
                op["at_rest"] = False
            if rng.random() < 0.06:
                op["d"] = 0
            return op
        if kind == "target":
            mt = ch.max_targets or len(qids)
            nt = 1 if rng.random() < 0.7 else rng.randint(1, min(mt, len(qids)))
            tg = rng.sample(qids, nt)
            if rng.random() < 0.2 and cs.slots:
                tg = list(cs.slots[-1].targets)  # same-target retarget
            if rng.random() < 0.25:
                idx = [qids.index(q) for q in tg]
                return {"op": "target_index", "qubits": idx if len(idx) > 1 else idx[0], "ch": self.name}
            return {"op": "target", "qubits": tg if len(tg) > 1 or rng.random() < 0.5 else tg[0], "ch": self.name}
        if kind == "phase_shift":
            basis = ch.basis
            nt = rng.randint(0, len(qids))
            tg = rng.sample(qids, nt)
            if rng.random() < 0.5 and cs.slots:
                tg = list(cs.slots[-1].targets)
            phi = G.pick(rng, [0.5, -1.0, 7.5, 1e-3, math.pi, 2.0])
            if rng.random() < 0.2 and tg:
                return {"op": "phase_shift_index", "phi": phi, "targets": [qids.index(q) for q in tg], "basis": basis}
            return {"op": "phase_shift", "phi": phi, "targets": tg, "basis": basis}
        if kind == "align":
            k = rng.randint(1, len(others))
            chs = [self.name] + rng.sample(others, k)
            rng.shuffle(chs)
            op = {"op": "align", "chs": chs}
            r = rng.random()
            if r < 0.3:
                op["at_rest"] = False
            elif r < 0.5:
                op["at_rest"] = True
            return op
        if kind == "enable_eom":
            sp = G.gen_eom_setpoint(rng, ch)
            return {"op": "enable_eom_mode", "ch": self.name, **sp}
        if kind == "modify":
            sp = G.gen_eom_setpoint(rng, ch)
            return {"op": "modify_eom_setpoint", "ch": self.name, **sp}
        if kind == "disable":
            op = {"op": "disable_eom_mode", "ch": self.name}
            if rng.random() < 0.4:
                op["cpd"] = True
            return op
        if kind == "add_eom_pulse":
            lastp = _programmed_phase(snap, cs, rng)
            phase = lastp if (lastp is not None and rng.random() < 0.5) else G.pick(rng, G.PHASE_POOL)
            op = {"op": "add_eom_pulse", "ch": self.name, "d": G.gen_duration(rng, ch), "phase": phase}
            if rng.random() < 0.3:
                op["pps"] = G.pick(rng, [0.7, -1.2, 6.5])
            if proto != "min-delay":
                op["protocol"] = proto
            if rng.random() < 0.35:
                op["cpd"] = True
            return op
        raise AssertionError(kind)


class ObserverActor:
    name = "observer"

    def runnable(self, snap: Snap) -> bool:
        return True

    def next_op(self, rng: random.Random, snap: Snap, ctx) -> dict | None:
        kind = G.wpick(rng, ctx.profile["observers"])
        names = list(snap.channels)
        if kind == "obs_sample":
            op = {"op": "obs_sample"}
            if rng.random() < 0.4:
                op["modulation"] = True
            if rng.random() < 0.3:
                op["extended"] = G.pick(rng, [5000, 20000])
            if rng.random() < 0.4:
                op["nested"] = True
                op["all_local"] = rng.random() < 0.5
            return op
        if kind == "obs_duration":
            op = {"op": "obs_duration"}
            if names and rng.random() < 0.7:
                op["ch"] = G.pick(rng, names)
            if rng.random() < 0.5:
                op["fall"] = True
            return op
        if kind == "obs_estimate":
            cands = [n for n in names if snap.channels[n].slots]
            if not cands:
                return {"op": "obs_props"}
            n = G.pick(rng, cands)
            cs = snap.channels[n]
            if cs.is_dmm:
                d = G.gen_duration(rng, cs.obj)
                wmax, wsum = G.weights_of(cs)
                pulse = {
                    "amp": {"w": "const", "d": d, "v": 0.0},
                    "det": G.gen_det_wf(rng, d, cs.obj, dmm=True, weights_max=wmax, weights_sum=wsum),
                    "phase": 0.0,
                }
            else:
                pulse = G.gen_pulse(rng, cs.obj, last_phase=_programmed_phase(snap, cs, rng))
            return {"op": "obs_estimate", "pulse": pulse, "ch": n, "protocol": G.wpick(rng, ctx.profile["protocols"])}
        if kind == "obs_phase_ref":
            bases = sorted(snap.phase)
            if not bases:
                return {"op": "obs_props"}
            return {"op": "obs_phase_ref", "qubit": G.pick(rng, ctx.qids), "basis": G.pick(rng, bases)}
        if kind == "obs_abstract":
            return {"op": "obs_abstract", "skip": rng.random() < 0.8}
        if kind == "obs_draw":
            return {"op": "obs_draw", "mode": G.pick(rng, ["input", "input+output"]), "shifts": rng.random() < 0.5}
        return {"op": kind}


class LateActor:
    """One-off late operations: SLM mask configuration and measurement."""

    name = "late"

    def __init__(self, rng: random.Random, setup: SetupActor, profile, device):
        self.pending: list[dict] = []
        if setup.slm_op is not None:
            self.pending.append(setup.slm_op)
        if rng.random() < profile["measure_p"]:
            self.measure = True
        else:
            self.measure = False
        self.device = device

    def runnable(self, snap: Snap) -> bool:
        return bool(self.pending) or (self.measure and bool(snap.channels))

    def next_op(self, rng, snap: Snap, ctx):
        if self.pending and (not self.measure or rng.random() < 0.8):
            return self.pending.pop(0)
        if self.measure:
            self.measure = False
            if snap.flags["in_xy"]:
                return {"op": "measure", "basis": "XY"}
            bases = sorted(b for b in snap.phase) or ["ground-rydberg"]
            return {"op": "measure", "basis": G.pick(rng, bases)}
        return None
