#!/bin/bash
# Runs every registered quick check once (like `vp check`: VERIF_SEED=${1:-1}) and lists any that does not exit 0.
# Use after ANY change under simlib/ (generators are shared between engines).
cd "$(dirname "$0")/.."
bad=0
for c in C01 C02 C03 C04 C05 C06 C07 C08 C09 C10 C11 C13 C14 C15 C17 C18 C20; do
  ./check $c --tier quick --seed ${1:-1} > /tmp/presubmit_$c.log 2>&1; rc=$?
  echo "$c exit=$rc $(tail -1 /tmp/presubmit_$c.log | cut -c1-150)"
  [ $rc -ne 0 ] && bad=1
done
[ $bad -eq 0 ] && echo "PRESUBMIT OK" || echo "PRESUBMIT FAILED"
exit $bad
