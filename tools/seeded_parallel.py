#!/venv/bin/python
"""Re-validate seeded changes in parallel, each in its own scratch worktree.

Same verdicts as tools/check_seeded.py (patch applies to /repo HEAD, demo
passes without and fails with the patch, which quick checks alarm), but /repo
is never touched: every seeded change gets `git worktree add /tmp/mw/<id>`, the
checks run with VERIF_REPO=<worktree> VERIF_OUT=/tmp/mo/<id> (so the evidence of
the registered checks is not overwritten) and the worktree is removed
afterwards. Usage: seeded_parallel.py [-j N] [--tier quick] [--all-checks] [ids...]
"""
import glob, json, os, re, shutil, subprocess, sys
from concurrent.futures import ThreadPoolExecutor

ROOT = "/verif"
args = sys.argv[1:]
J = 4
TIER = "quick"
ALL = False
ids = []
while args:
    a = args.pop(0)
    if a == "-j":
        J = int(args.pop(0))
    elif a == "--tier":
        TIER = args.pop(0)
    elif a == "--all-checks":
        ALL = True
    else:
        ids.append(a)
EXTRA = json.load(open(f"{ROOT}/tools/seeded_extra.json"))
ALL_IDS = [c["property_id"] for c in json.load(open(f"{ROOT}/MANIFEST.json"))["checks"]] if ALL else []


def sh(cmd, **kw):
    return subprocess.run(cmd, shell=True, capture_output=True, text=True, **kw)


head = sh("git -C /repo rev-parse --short=8 HEAD").stdout.strip()


def one(d):
    sid = os.path.basename(d.rstrip("/"))
    meta = json.load(open(d + "meta.json"))
    prop = meta["property"]
    wt, out = f"/tmp/mw/{sid}", f"/tmp/mo/{sid}"
    ent = {"property": prop, "head": head}
    sh(f"git -C /repo worktree remove --force {wt}")
    shutil.rmtree(out, ignore_errors=True)
    os.makedirs(out, exist_ok=True)
    r = sh(f"git -C /repo worktree add --detach {wt} HEAD")
    assert r.returncode == 0, r.stderr
    try:
        envd = dict(os.environ, PYTHONPATH=f"{wt}/pulser-core:{wt}/pulser-simulation", PYTHONDONTWRITEBYTECODE="1", MPLBACKEND="Agg")
        clean = subprocess.run(["/venv/bin/python", d + "demo.py"], env=envd, capture_output=True, text=True, timeout=900).returncode
        ap = sh(f"git -C {wt} apply {d}patch.diff")
        if ap.returncode != 0:
            ent["status"] = "patch does not apply to HEAD"
            return sid, ent, meta
        mut = subprocess.run(["/venv/bin/python", d + "demo.py"], env=envd, capture_output=True, text=True, timeout=900).returncode
        ent["demo_exit_unchanged"], ent["demo_exit_with_patch"] = clean, mut
        det = {}
        chks = [prop] + [c for c in (ALL_IDS or EXTRA.get(sid, [])) if c != prop]
        for chk in chks:
            cenv = dict(os.environ, VERIF_REPO=wt, VERIF_OUT=out, VERIF_WORKERS=str(max(2, 16 // J)), VERIF_WALL_CAP="900")
            cenv.pop("PYTHONPATH", None)
            p = subprocess.run([f"{ROOT}/check", chk, "--tier", TIER], env=cenv, capture_output=True, text=True, timeout=6000, cwd=ROOT)
            oids = sorted(set(re.findall(r"oracle=(\S+)", p.stdout)))
            m = re.search(r"violations=(\d+)", p.stdout)
            det[chk] = {"exit": p.returncode, "violations": int(m.group(1)) if m else None, "oracles": oids}
            if p.returncode not in (0, 1):
                det[chk]["tail"] = (p.stdout + p.stderr)[-400:]
        ent["checks"] = det
        ent["detected_by"] = [c for c, v in det.items() if v["exit"] == 1]
        ent["status"] = "valid" if (clean == 0 and mut != 0) else "demo no longer discriminates on HEAD"
        return sid, ent, meta
    finally:
        sh(f"git -C /repo worktree remove --force {wt}")
        shutil.rmtree(out, ignore_errors=True)


dirs = [d for d in sorted(glob.glob(f"{ROOT}/seeded/*/")) if not ids or os.path.basename(d.rstrip("/")) in ids]
mpath = f"{ROOT}/seeded/MATRIX.json"
with ThreadPoolExecutor(J) as ex:
    for sid, ent, meta in ex.map(one, dirs):
        matrix = json.load(open(mpath)) if os.path.exists(mpath) else {}
        if TIER == "quick" and not ALL:
            matrix[sid] = ent
            meta["detected_by"] = ent.get("detected_by", [])
            meta["revalidated_on"] = head
            meta["status_on_head"] = ent["status"]
            json.dump(meta, open(f"{ROOT}/seeded/{sid}/meta.json", "w"), indent=1)
            json.dump(matrix, open(mpath, "w"), indent=1, sort_keys=True)
        print(sid, ent["status"], "detected_by", ent.get("detected_by"), {c: (v["exit"], v["oracles"][:3]) for c, v in ent.get("checks", {}).items()}, flush=True)
