"""Re-validate every seeded change against /repo HEAD and record which checks catch it.

For each /verif/seeded/<id>/: the patch must apply to /repo, the demo must fail
with it (and pass without it), then the quick check of its property (and any
extra checks named on the command line) is run; /repo is restored afterwards.
Writes /verif/seeded/MATRIX.json and updates each meta.json.
"""
import glob, json, os, re, subprocess, sys

ROOT = "/verif"
ENV = dict(os.environ, PYTHONPATH="/repo/pulser-core:/repo/pulser-simulation", PYTHONDONTWRITEBYTECODE="1", MPLBACKEND="Agg")
only = set(sys.argv[1:])
matrix = json.load(open(f"{ROOT}/seeded/MATRIX.json")) if os.path.exists(f"{ROOT}/seeded/MATRIX.json") else {}
EXTRA = {"C15-m1": ["C07"], "C02-m1": ["C03"], "C18-m2": ["C01"], "C09-m1": ["C03"], "C05-m1": ["C06"], "C11-m2": ["C05"]}


def sh(cmd, **kw):
    return subprocess.run(cmd, shell=True, capture_output=True, text=True, **kw)


assert sh("git -C /repo status --porcelain -- pulser-core pulser-simulation").stdout.strip() == "", "/repo has uncommitted changes"
head = sh("git -C /repo rev-parse --short=8 HEAD").stdout.strip()
for d in sorted(glob.glob(f"{ROOT}/seeded/*/")):
    sid = os.path.basename(d.rstrip("/"))
    if only and sid not in only:
        continue
    meta = json.load(open(d + "meta.json"))
    prop = meta["property"]
    ent = {"property": prop, "head": head}
    clean = subprocess.run(["/venv/bin/python", d + "demo.py"], env=ENV, capture_output=True, text=True, timeout=600).returncode
    ap = sh(f"git -C /repo apply {d}patch.diff")
    if ap.returncode != 0:
        ent["status"] = "patch does not apply to HEAD"
        matrix[sid] = ent
        print(sid, ent["status"])
        continue
    try:
        mut = subprocess.run(["/venv/bin/python", d + "demo.py"], env=ENV, capture_output=True, text=True, timeout=600).returncode
        ent["demo_exit_unchanged"], ent["demo_exit_with_patch"] = clean, mut
        det = {}
        for chk in [prop] + EXTRA.get(sid, []):
            p = sh(f"cd {ROOT} && ./check {chk} --tier quick", timeout=3000)
            oids = sorted(set(re.findall(r"oracle=(\S+)", p.stdout)))
            m = re.search(r"violations=(\d+)", p.stdout)
            det[chk] = {"exit": p.returncode, "violations": int(m.group(1)) if m else None, "oracles": oids}
        ent["checks"] = det
        ent["detected_by"] = [c for c, v in det.items() if v["exit"] == 1]
        ent["status"] = "valid" if (clean == 0 and mut != 0) else "demo no longer discriminates on HEAD"
    finally:
        sh("git -C /repo checkout -- pulser-core pulser-simulation")
        sh(f"rm -f {ROOT}/replays/*.json")
    matrix[sid] = ent
    meta["detected_by"] = ent.get("detected_by", [])
    meta["revalidated_on"] = head
    meta["status_on_head"] = ent["status"]
    json.dump(meta, open(d + "meta.json", "w"), indent=1)
    print(sid, ent["status"], "detected_by", ent.get("detected_by"), {c: v["oracles"][:3] for c, v in ent.get("checks", {}).items()}, flush=True)
    json.dump(matrix, open(f"{ROOT}/seeded/MATRIX.json", "w"), indent=1)
