"""Regenerate MANIFEST.json from the check registry (run via ./check is not needed; plain python)."""
import json, sys
sys.path.insert(0, "/verif")
NA = {
 "C12": "Pure predicate of (device, register/layout): no state, order of operations, fault, randomness or clock for a simulator to control; deciding the iff at geometric boundaries is input-space exploration, a different technique family.",
 "C16": "Pure functions of waveform/pulse constructor arguments (quantifier: inputs only); nothing to schedule, interleave or fault.",
 "C19": "Pure functions of coordinate sets (sorting/rounding/hash); no history, fault or interleaving. The mappable-register build clause that does involve a history is exercised under C08.",
}
META = json.load(open("/verif/tools/check_meta.json"))
props = [json.loads(l) for l in open("/verif/properties.jsonl")]
checks = []
na = []
for p in props:
    pid = p["id"]
    if pid in META:
        m = META[pid]
        checks.append({
            "property_id": pid,
            "quick_cmd": f"./check {pid} --tier quick",
            "thorough_cmd": f"./check {pid} --tier thorough",
            "evidence_file": f"/verif/evidence/{pid}.json",
            "replay_cmd_template": f"./check {pid} --replay {{path}}",
            "engine": m["engine"],
            "level_claimed": {"category": m["level"], "text": m["text"], "design_ref": m["design_ref"]},
            "level_note": m["note"],
            "technique": m["technique"],
        })
    else:
        na.append({"property_id": pid, "reason": NA.get(pid, "check not built yet (build in progress, see DESIGN.md section 8)")})
engines = {}
for c in checks:
    engines.setdefault(c["engine"], []).append(c["property_id"])
ENG = {"SEQ-SIM": ("simlib/engine.py", "deterministic simulation of Sequence call histories: per-channel actors, seeded interleaver, fault actor (bad calls, restarts through every persistence path, cache flushes), observer actor"),
       "EMU-SIM": ("simlib/emu.py", "deterministic simulation of QutipEmulator / QutipBackendV2 reconfiguration histories with an owned RNG"),
       "POOL-SIM": ("simlib/pool.py", "deterministic simulation of a pool of serialisable API objects: interleaved construct / persist-restore / convert / use operations"),
       "TMPL-SIM": ("simlib/tmpl.py", "deterministic simulation of parametrized template worlds: builds, failing builds, sibling builds, restarts")}
man = {
 "version": 1,
 "setup_cmd": "./check setup",
 "hooks": {"guard": "PULSER_VERIF", "enable": "no hooks needed: every seam is reached through public API, functools cache handles and numpy.random/uuid patching from the harness; checks import /repo (or $VERIF_REPO) via PYTHONPATH set by ./check", "baseline_off_cmd": "cd /repo && /venv/bin/python -m pytest -ra -q -p no:cacheprovider --timeout=900 --continue-on-collection-errors", "source_commits": [], "add_only": True},
 "engines": [{"name": n, "path": ENG[n][0], "serves_properties": ps, "kind_free_text": ENG[n][1]} for n, ps in engines.items()],
 "checks": checks,
 "notes": "Deterministic simulation with fault injection; see DESIGN.md. One integer (VERIF_SEED) decides world, programs, interleaving and faults of every run; violations are minimised by delta debugging and written to /verif/replays; known_findings.json lists recorded/fixed genuine defects.",
 "not_applicable": na,
}
json.dump(man, open("/verif/MANIFEST.json", "w"), indent=1)
print("checks:", [c["property_id"] for c in checks], "na:", [n["property_id"] for n in na])
