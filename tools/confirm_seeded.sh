#!/bin/bash
# usage: confirm_seeded.sh <src-dir containing patch.diff demo.py notes.md> <seeded-id> <property>
# Confirms in a scratch worktree of /repo HEAD: patch applies, full suite passes with it,
# demo fails with it and passes without it. On success copies into /verif/seeded/<id>/ with meta.json.
set -u
SRC=$1; ID=$2; PROP=$3
WT=/tmp/confirm/$ID
rm -rf $WT; mkdir -p /tmp/confirm
git -C /repo worktree add --detach $WT HEAD >/dev/null 2>&1 || { echo "$ID: worktree failed"; exit 2; }
cleanup(){ git -C /repo worktree remove --force $WT >/dev/null 2>&1; }
trap cleanup EXIT
cd $WT
export PYTHONPATH=$WT/pulser-core:$WT/pulser-simulation PYTHONDONTWRITEBYTECODE=1 MPLBACKEND=Agg
timeout 300 /venv/bin/python $SRC/demo.py >/tmp/confirm/$ID.demo_clean.log 2>&1; CLEAN=$?
if ! git apply $SRC/patch.diff 2>/tmp/confirm/$ID.apply.log; then echo "$ID: PATCH DOES NOT APPLY"; exit 3; fi
timeout 300 /venv/bin/python $SRC/demo.py >/tmp/confirm/$ID.demo_mut.log 2>&1; MUT=$?
# tests/test_sequence_sampler.py::test_draw_samples flakes under xdist on a loaded machine: it is run on its own, serially
timeout 1500 /venv/bin/python -m pytest -q -p no:cacheprovider -n 6 -q --reruns 2 --deselect tests/test_sequence_sampler.py::test_draw_samples >/tmp/confirm/$ID.suite.log 2>&1; SUITE=$?
if [ $SUITE -eq 0 ]; then
  timeout 600 /venv/bin/python -m pytest -q -p no:cacheprovider -p no:xdist --reruns 3 tests/test_sequence_sampler.py::test_draw_samples >/tmp/confirm/$ID.suite2.log 2>&1; SUITE=$?
fi
TAIL=$(tail -1 /tmp/confirm/$ID.suite.log)
echo "$ID: demo clean=$CLEAN mutated=$MUT suite_exit=$SUITE [$TAIL]"
if [ $CLEAN -eq 0 ] && [ $MUT -ne 0 ] && [ $SUITE -eq 0 ]; then
  D=/verif/seeded/$ID; mkdir -p $D
  cp $SRC/patch.diff $SRC/demo.py $D/; [ -f $SRC/notes.md ] && cp $SRC/notes.md $D/
  /venv/bin/python - <<PY
import json
json.dump({"id":"$ID","property":"$PROP","needs":open("$SRC/notes.md").read()[:1500] if __import__("os").path.exists("$SRC/notes.md") else "",
 "confirmed":{"base_commit":"$(git -C /repo rev-parse --short HEAD)","patch_applies":True,"suite_with_patch":"$TAIL","demo_exit_unchanged":$CLEAN,"demo_exit_with_patch":$MUT,
 "how":"tools/confirm_seeded.sh in a scratch worktree of /repo HEAD: demo on clean tree, git apply, demo, full pytest suite against the worktree (PYTHONPATH), worktree removed"},
 "detected_by":[]}, open("$D/meta.json","w"), indent=1)
PY
  echo "$ID: KEPT"
else
  echo "$ID: REJECTED"
fi
