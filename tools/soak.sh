#!/bin/bash
# soak: run every registered check at thorough tier over several seeds; report only non-clean lines
for s in ${SEEDS:-31 32 33}; do
  for c in ${CHECKS:-C01 C02 C03 C04 C05 C06 C07 C08 C09 C10 C11 C13 C14 C15 C17 C18 C20}; do
    VERIF_SEED=$s VERIF_WALL_CAP=${CAP:-300} ./check $c --tier thorough 2>&1 | grep -v "^KNOWN" | tail -4 | cut -c1-400
  done
done
