#!/bin/bash
# soak: run every registered check at thorough tier over several seeds; report only non-clean lines
for s in ${SEEDS:-11 12 13}; do
  for c in ${CHECKS:-C01 C02 C03 C09 C10 C13}; do
    VERIF_SEED=$s VERIF_WALL_CAP=${CAP:-600} ./check $c --tier thorough 2>&1 | grep -v "^KNOWN" | tail -4 | cut -c1-400
  done
done
