#!/bin/bash
# Runs the repository's own test suite against the tree in $1 (default /repo); prints FAILED lines and the exit code.
R=${1:-/repo}
cd $R && PYTHONPATH=$R/pulser-core:$R/pulser-simulation PYTHONDONTWRITEBYTECODE=1 MPLBACKEND=Agg /venv/bin/python -m pytest -q -p no:cacheprovider -n ${N:-6} --reruns 2 -q 2>&1 | grep -E "^FAILED|^ERROR" | head -20
echo "suite_exit=${PIPESTATUS[0]}"
